#!/usr/bin/env python3
"""save a confirmed seeded defect: tools/save_seed.py <ID> <A|B> "<needs>" "<detected by>" """
import sys, os, shutil, json, re, subprocess
pid, v, needs, detected = sys.argv[1:5]
src = ('/tmp/mut/%s/out' % pid) if __import__('os').path.exists('/tmp/mut/%s/out' % pid) else ('/tmp/mutdone/%s/out' % pid)
dst = '/verif/seeded/%s-%s' % (pid, v)
os.makedirs(dst, exist_ok=True)
applied = '/tmp/confirm/%s%s.applied.diff' % (pid, v)
shutil.copy(applied if os.path.exists(applied) and os.path.getsize(applied) > 0 else os.path.join(src, v + '.diff'), os.path.join(dst, 'patch.diff'))
shutil.copy(os.path.join(src, 'demo_%s.rs' % v), os.path.join(dst, 'demo.rs'))
notes = open(os.path.join(src, 'notes.md')).read() if os.path.exists(os.path.join(src, 'notes.md')) else ''
open(os.path.join(dst, 'notes.md'), 'w').write(notes)
conf = [l for l in open('/tmp/confirm_all.log') if l.startswith(pid + v)] if os.path.exists('/tmp/confirm_all.log') else []
meta = {'property': pid, 'variant': v, 'breaks': pid, 'needs_to_manifest': needs,
        'origin': 'independent sub-agent given only the property text and a scratch worktree (no access to /verif)',
        'confirmed': {'how': 'tools/confirm_seed.sh in a scratch worktree of /repo HEAD (patch applied with git apply -3 where /repo had moved on): demo passes on the clean tree; with the patch the 361 unit + 4 doc tests pass and the demo fails',
                      'result_line': conf[-1].strip() if conf else None},
        'repo_head_when_confirmed': subprocess.check_output(['git', '-C', '/repo', 'rev-parse', '--short', 'HEAD']).decode().strip(),
        'detected_by': detected}
json.dump(meta, open(os.path.join(dst, 'meta.json'), 'w'), indent=1)
print('saved', dst)
