#!/usr/bin/env python3
"""regenerates /verif/MANIFEST.json from the table below (keeps it valid at all times)"""
import json, os, sys
V = '/verif'
TRUST = ('rustc-nightly MIR of the working tree describes what stable builds; our MIR reader/executor (validated on every '
         'run by replaying solver models on the real crate); z3 (cvc5 cross-check in the thorough tier); environment models '
         'of DashMap/SegQueue/atomics/clock/uuid (DESIGN.md 2.3); the oracle written from the property text')
CHECKS = {
 'C01': dict(technique='bounded symbolic execution of the crate MIR -> SMT (z3, integer encoding of u64 arithmetic); inductive invariant with loop cut + depth-bounded histories; models replayed on the real crate',
             text='Solver decides, for every 64-bit parameter value: (a) one arbitrary operation from an ARBITRARY level state with <=N resting orders and <=K tickets preserves "aggregates == sums over resting orders" (match_order cut at its loop head, so any number of iterations and any history length are covered by induction); (b) every history of depth D from an empty level keeps the equality after every step. Bounded by N,K,D stated in the evidence; not a proof.',
             ref='6.1'),
 'C05': dict(technique='symbolic execution of match_against by two encoders (own MIR->SMT and Kani/CBMC) against the rule set of the statement, full 64-bit',
             text='match_against is loop-free: both engines decide every rule of the statement for every order of every variant and every incoming quantity at full width; the only bound is the machine word. Vacuity witnesses are replayed on the real crate.',
             ref='6.5', engine='E-MIR+E-KANI'),
}
NA_REASON = {}
props = [json.loads(l) for l in open(os.path.join(V, 'properties.jsonl'))]
man = {
 'version': 1,
 'setup_cmd': './setup.sh',
 'hooks': {'guard': 'pricelevel_verif', 'enable': "RUSTFLAGS='--cfg pricelevel_verif' (used only by the native driver to replay a solver-found schedule step by step; E-MIR reads the MIR of the unhooked build)",
           'baseline_off_cmd': 'cd /repo && cargo test --workspace --no-fail-fast --offline', 'source_commits': ['f9994c1'], 'add_only': True},
 'engines': [
  {'name': 'E-MIR', 'path': 'emir/', 'serves_properties': sorted(k for k in CHECKS), 'kind_free_text': 'own bounded symbolic executor over rustc MIR (merge mode, loop unrolling / loop cuts) -> SMT-LIB2 -> z3/cvc5; native replay driver native/'},
  {'name': 'E-KANI', 'path': 'kani/', 'serves_properties': ['C05'], 'kind_free_text': 'Kani 0.68 / CBMC 6.11 proof harnesses over the compiled crate'},
 ],
 'checks': [],
 'notes': 'see DESIGN.md; known_findings.json lists recorded and repaired defects',
 'not_applicable': [],
}
for p in props:
    pid = p['id']
    if pid in CHECKS:
        c = CHECKS[pid]
        man['checks'].append({
            'property_id': pid,
            'quick_cmd': './check %s --tier quick' % pid,
            'thorough_cmd': './check %s --tier thorough' % pid,
            'evidence_file': '/verif/evidence/%s.json' % pid,
            'replay_cmd_template': './check %s --replay {path}' % pid,
            'engine': c.get('engine', 'E-MIR'),
            'level_claimed': {'category': 'model_checking', 'text': c['text'], 'design_ref': 'DESIGN.md ' + c['ref']},
            'level_note': TRUST,
            'technique': c['technique'],
        })
    else:
        man['not_applicable'].append({'property_id': pid, 'reason': NA_REASON.get(pid, 'check not built yet (construction in progress, see DESIGN.md section 9)')})
json.dump(man, open(os.path.join(V, 'MANIFEST.json'), 'w'), indent=1)
print('checks:', [c['property_id'] for c in man['checks']])
