#!/usr/bin/env python3
"""regenerates /verif/MANIFEST.json from the table below (keeps it valid at all times)"""
import json, os, sys
V = '/verif'
TRUST = ('rustc-nightly MIR of the working tree describes what stable builds; our MIR reader/executor (validated on every '
         'run by replaying solver models on the real crate); z3 (cvc5 cross-check in the thorough tier); environment models '
         'of DashMap/SegQueue/atomics/clock/uuid (DESIGN.md 2.3); the oracle written from the property text')
SEQ = 'bounded symbolic execution of the crate MIR -> SMT (z3, integer encoding of u64 arithmetic): one operation from an arbitrary invariant-satisfying level state (inductive step, match loop cut at its head) plus depth-bounded histories; solver models replayed on the real crate'
CONC = 'symbolic execution of the crate MIR for two threads under a symbolic well-nested schedule (sequentialisation, one SMT query set per placement of thread B between two shared-memory steps of thread A); counterexample schedules replayed step by step on the hooked real crate'
CHECKS = {
 'C01': dict(technique=SEQ, ref='6.1',
             text='Solver decides, for every 64-bit parameter value: (a) one arbitrary operation (add, re-add, match entry, an arbitrary later loop iteration, cancel, the three amend kinds, price move) from an ARBITRARY level state with <=N resting orders and <=K tickets preserves "aggregates == sums over the orders the level owns" - match_order is cut at its loop head, so any number of iterations and any history length follow by induction; (b) every history of depth D from an empty level keeps the equality after every step, and no overflow panic is reachable. Bounded by N,K,D (evidence); not a proof. Rebuild-from-snapshot paths are checked under C10.'),
 'C02': dict(technique=SEQ + '; add_transaction also by Kani/CBMC', ref='6.2', engine='E-MIR+E-KANI',
             text='Every match request in every history of depth D, one match (<=L iterations) from an arbitrary level state, and ONE loop iteration from an arbitrary loop-head state (accounting invariant assumed and re-established, so any number of iterations is covered by induction) are checked against: executed+remaining==requested, is_complete, every transaction (positive, level price, taker id, maker resting, opposite side), filled ids == makers that traded and left, per-order fills+remainder <= held quantity (inductive form of the lifetime bound), an order handed back by an update or reported as filled never trades again in the history, transaction ids pairwise distinct (UUIDv5 injectivity assumed). add_transaction decided by two engines.'),
 'C03': dict(technique=CONC, ref='6.3',
             text='Two threads x one operation (add/match/cancel/quantity-amend) on an arbitrary level state; for every well-nested interleaving the solver decides aggregates==sums at quiescence and per-order executed+cancelled+resting (<)= supplied. Crossing overlaps, >2 threads, >1 op per thread are outside the bound.'),
 'C04': dict(technique=SEQ + '; ghost arrival ranks and a link invariant to the ticket queue; queue-position violations confirmed by a draining match on the real crate', ref='6.4',
             text='Time priority as an inductive invariant J (earlier arrival rank => reached first by the ticket queue): every operation from an arbitrary state satisfying J must trade against the earliest displaying order and re-establish J for the ranks the statement prescribes; match sizes from 0; the taker id ranges over a fresh id and the resting ids; cube I (arbitrary later iteration) starts with up to two set-aside makers; a sweep cube (whole call, <= L iterations) checks that makers passed over without a trade keep their relative order and that a replenished maker goes to the back. Counterexamples are confirmed by the whole first-trade order of a draining match on the real crate (plain, and after zero-display orders are amended to a display). Two recorded known findings (partial fill re-queued at tail; stale ticket keeps old position) are reported as KNOWN-FINDING; the tolerant obligations (statement minus those two deviations) must be unsat.'),
 'C05': dict(technique='symbolic execution of match_against by two encoders (own MIR->SMT and Kani/CBMC) against the rule set of the statement, full 64-bit', ref='6.5', engine='E-MIR+E-KANI',
             text='match_against is loop-free: both engines decide every rule of the statement for every order of every variant and every incoming quantity at full width; the only bound is the machine word. Vacuity witnesses are replayed on the real crate.'),
 'C06': dict(technique=SEQ + '; termination by a solver-checked progress lemma on one loop iteration', ref='6.6',
             text='Termination: the solver decides that ONE iteration of match_order from an arbitrary loop-head state strictly decreases the well-founded measure (remaining quantity, level hidden quantity, reachable tickets); OrderQueue::pop unwinding asserted. Exhaustion: by induction (set-aside makers display nothing + every resting order is covered by a ticket => an exit with quantity remaining leaves no displayed quantity) and, with the at-least-min(requested, displayed) bound, on one match (<=L iterations) from an arbitrary state and on histories of depth D; quantities from 0.'),
 'C07': dict(technique=SEQ + '; read-only entry points executed from their MIR and compared by structural state equality', ref='6.7',
             text='All five update kinds (equal/different price, present/absent id) from an arbitrary level state and inside histories of depth D are compared with the statement (returned order, removed exactly it, others and identity fields untouched, new display for Standard/PostOnly/Iceberg, not-found/rejection change nothing); 14 read-only entry points must leave the complete level state equal.'),
 'C08': dict(technique=CONC, ref='6.8',
             text='Level programs: at quiescence of every well-nested two-thread schedule every resting order is covered by an available ticket (so matching reaches it), aggregates equal sums, nothing handed out twice. Bare OrderQueue programs (two threads x one push/pop/remove/find on an arbitrary queue state): every order handed out exactly once or still resting, every entry covered by a ticket.'),
 'C09': dict(technique='symbolic execution of the crate MIR -> SMT with a recording serializer and an abstract injective digest (the real Serialize impl, Package::new, validate, into_snapshot are executed); models replayed through the real serde_json + SHA-256 path', ref='6.9',
             text='PARTIAL (validation logic and checksum coverage): for ANY replacement of the version and of the snapshot content (price, aggregates, number/sequence of orders, every order field; <= 2 orders) under the original checksum, the restore path succeeds only if version == 1 and the content is the checksummed one; untouched packages are accepted. Byte-level faults on the JSON text (substitution, insertion, deletion, truncation) go through the serde_json parser and are NOT covered.'),
 'C10': dict(technique='bounded symbolic execution of the crate MIR -> SMT: structural round trips from an arbitrary level state, constructors fed arbitrary carried aggregates, listing under a symbolic map iteration order; models replayed on the real crate', ref='6.10',
             text='PARTIAL (structural conversions only): snapshot -> from_snapshot, &snapshot -> From, level-data -> try_from from an ARBITRARY level state give the same price, orders field for field and aggregates; constructors fed snapshots / level-data with ARBITRARY carried aggregates still report the sums of the contained orders; iter_orders lists each resting order once in non-decreasing timestamp order for every map iteration order. JSON / text / package bytes are outside (C16/C17 reasons).'),
 'C11': dict(technique='two-run bounded symbolic execution of the crate MIR -> SMT (original vs snapshot-restored copy of an arbitrary level state, same continuation); both runs replayed on the real crate', ref='6.11',
             text='The same continuation (one match of <= L iterations; thorough: cancel + match) on an ARBITRARY level state and on its from_snapshot(snapshot()) copy must give the same maker sequence (N=3 resting orders, order prices in {P, P+1}). Recorded known finding C11/snapshot-lists-by-timestamp; the tolerant obligation (same result wherever timestamp order is the queue order) must be unsat.'),
 'C19': dict(technique='bounded symbolic execution of the crate MIR -> SMT: one fully symbolic history of D queue calls (kind, id, order symbolic per step) against a reference FIFO; models replayed on the real crate', ref='6.19',
             text='PARTIAL (API semantics and list constructors): pop/find/remove/len/is_empty/to_vec of OrderQueue against a reference FIFO-with-removal for every history of D calls over the ids Uuid(1), Uuid(2), Ulid(1) (two id formats, two different ids sharing their 128-bit value); from_vec / From<Vec> contain exactly the listed orders in list order. Recorded known finding C19/repush-inherits-stale-ticket. Text / JSON construction outside (codec machinery).'),
 'C12': dict(technique=CONC + '; monitor asserted before every shared-memory step', ref='6.12',
             text='A reader stopped before every shared-memory step of either writer (and at quiescence) must see visible, hidden <= total ever supplied and count <= orders ever added, for every well-nested two-writer schedule from an arbitrary level state.'),
 'C13': dict(technique=CONC, ref='6.13',
             text='Cancel / quantity-amend acknowledgements in two-thread programs: success means out of the book and nothing of the order executed or handed out twice; not-found although the order rests before and after is the recorded known finding C13/not-found-while-held (printed as KNOWN-FINDING after replay under the schedule); in the sequential placements (the other thread ran to completion first) not-found is accepted only if the other thread reports the order as filled or handed back, or match_against lets it leave silently.'),
 'C14': dict(technique=CONC + '; UUIDv5 as an uninterpreted injective function', ref='6.14',
             text='2 threads x N calls of UuidGenerator::next from an arbitrary counter value and namespace: ids pairwise different for every well-nested schedule; a match racing next() on the same generator (transaction id vs issued id); two generators with equal namespace issue equal sequences (4 calls); inductive form for any number of calls and any distance between them: next() advances the counter by exactly one, and generators of one namespace standing at two DIFFERENT arbitrary 64-bit counter values issue different ids.'),
 'C15': dict(technique=SEQ + '; concurrent half: ' + CONC, ref='6.15',
             text='Per operation the four counters named by the statement move by exactly the events of that operation, from arbitrary counter values (any history length) and in histories of depth D; concurrent half: two-thread programs, counters vs events at quiescence for every well-nested schedule.'),
}
NA_REASON = {
 'C16': 'text codecs are almost entirely library string machinery (core::fmt, str::split/find via memchr, to_uppercase tables, HashMap, uuid/ulid codecs): CBMC blows up on it (Side round trip: 1.1M steps, no verdict in 600 s) and a MIR-level encoder would model it instead of executing it (DESIGN.md 6.16)',
 'C17': 'serde_json serializer/deserializer (itoa/float fallback, escaping, recursive descent) is out of reach for both engines; the structural halves that are reachable are claimed under C10 (DESIGN.md 6.17)',
 'C18': 'quantifies over every Unicode string fed to ~15 parsers built on split/HashMap/parse/serde; Kani did not finish MatchResult::from_str with 2 symbolic bytes in 3000 s; a byte-array model could cover one hand-written scanner out of fifteen, which would not decide the property (DESIGN.md 6.18)',
}
props = [json.loads(l) for l in open(os.path.join(V, 'properties.jsonl'))]
man = {
 'version': 1,
 'setup_cmd': './setup.sh',
 'hooks': {'guard': 'pricelevel_verif', 'enable': "RUSTFLAGS='--cfg pricelevel_verif' (used only by the native driver to replay a solver-found schedule step by step; E-MIR reads the MIR of the unhooked build)",
           'baseline_off_cmd': 'cd /repo && cargo test --workspace --no-fail-fast --offline', 'source_commits': ['f9994c1'], 'add_only': True},
 'engines': [
  {'name': 'E-MIR', 'path': 'emir/', 'serves_properties': sorted(k for k in CHECKS), 'kind_free_text': 'own bounded symbolic executor over rustc MIR (merge mode, loop unrolling / loop cuts) -> SMT-LIB2 -> z3/cvc5; native replay driver native/'},
  {'name': 'E-KANI', 'path': 'kani/', 'serves_properties': ['C02', 'C05'], 'kind_free_text': 'Kani 0.68 / CBMC 6.11 proof harnesses over the compiled crate'},
 ],
 'checks': [],
 'notes': 'see DESIGN.md; known_findings.json lists recorded and repaired defects',
 'not_applicable': [],
}
for p in props:
    pid = p['id']
    if pid in CHECKS:
        c = CHECKS[pid]
        man['checks'].append({
            'property_id': pid,
            'quick_cmd': './check %s --tier quick' % pid,
            'thorough_cmd': './check %s --tier thorough' % pid,
            'evidence_file': '/verif/evidence/%s.json' % pid,
            'replay_cmd_template': './check %s --replay {path}' % pid,
            'engine': c.get('engine', 'E-MIR'),
            'level_claimed': {'category': 'model_checking', 'text': c['text'], 'design_ref': 'DESIGN.md ' + c['ref']},
            'level_note': TRUST,
            'technique': c['technique'],
        })
    else:
        man['not_applicable'].append({'property_id': pid, 'reason': NA_REASON.get(pid, 'check not built yet (construction in progress, see DESIGN.md section 9)')})
json.dump(man, open(os.path.join(V, 'MANIFEST.json'), 'w'), indent=1)
print('checks:', [c['property_id'] for c in man['checks']])
