#!/bin/bash
# usage: tools/run_mutant.sh <patch.diff> <ID> [<ID> ...]   -- applies the patch to /repo, runs the quick checks, reverts
P="$1"; shift
cd /repo || exit 9
if ! git diff --quiet; then echo "repo dirty"; exit 9; fi
git apply "$P" 2>/dev/null || git apply -3 "$P" 2>/dev/null || { echo "== patch does not apply"; git reset -q --hard HEAD; exit 9; }
if git diff --name-only --diff-filter=U | grep -q .; then echo "== patch applies only with conflicts"; git reset -q --hard HEAD; exit 9; fi
git reset -q
cd /verif
for id in "$@"; do
  ./check "$id" --tier "${TIER:-quick}" > /tmp/mut-$id.log 2>&1; rc=$?
  echo "== $id exit=$rc $(grep -c '^VIOLATION' /tmp/mut-$id.log) violations; $(grep -c '^INCONCLUSIVE' /tmp/mut-$id.log) inconclusive; $(tail -1 /tmp/mut-$id.log | cut -c1-160)"
  grep '^VIOLATION\|^INCONCLUSIVE' /tmp/mut-$id.log | head -2 | cut -c1-250
done
git -C /repo reset -q --hard HEAD
