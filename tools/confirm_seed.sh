#!/bin/bash
# usage: tools/confirm_seed.sh <ID> <A|B>   -- confirms a seeded defect from /tmp/mut/<ID>/out in a scratch worktree of /repo
ID=$1; V=$2; SRC=/tmp/mut/$ID/out; [ -d $SRC ] || SRC=/tmp/mutdone/$ID/out; W=/tmp/confirm/$ID$V
export CARGO_NET_OFFLINE=true
rm -rf $W; mkdir -p /tmp/confirm; git -C /repo worktree prune; git -C /repo worktree add --detach $W HEAD >/dev/null 2>&1 || exit 9
cd $W
cp $SRC/demo_$V.rs tests/demo_seed.rs
export CARGO_TARGET_DIR=${CONFIRM_TARGET:-/tmp/confirm/target}
r_clean=$(cargo test --offline --test demo_seed 2>&1 | grep -E '^test result' | tail -1)
git apply $SRC/$V.diff 2>/dev/null || git apply -3 $SRC/$V.diff >/dev/null 2>&1 || { echo "$ID$V: patch does not apply"; cd /; git -C /repo worktree remove --force $W; exit 9; }
git reset -q
git diff -- src > $W.applied.diff
suite=$(cargo test --workspace --no-fail-fast --offline 2>&1 | grep -E '^test result' | awk '{p+=$4; f+=$6} END {print p" passed "f" failed"}')
r_mut=$(cargo test --offline --test demo_seed 2>&1 | grep -E '^test result' | tail -1)
echo "$ID$V | clean demo: $r_clean | suite with patch (incl. demo): $suite | demo with patch: $r_mut"
cd /; git -C /repo worktree remove --force $W
