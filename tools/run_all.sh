#!/bin/bash
# usage: tools/run_all.sh quick|thorough   -- runs every registered check, prints one summary line each
cd /verif
TIER=${1:-quick}
for id in $(python3 -c "import json; print(' '.join(c['property_id'] for c in json.load(open('/verif/MANIFEST.json'))['checks']))"); do
  s=$(date +%s)
  VERIF_SEED=${VERIF_SEED:-0} ./check $id --tier $TIER > /tmp/all-$TIER-$id.log 2>&1; rc=$?
  e=$(date +%s)
  echo "$id rc=$rc wall=$((e-s))s known=$(grep -c '^KNOWN-FINDING' /tmp/all-$TIER-$id.log) viol=$(grep -c '^VIOLATION' /tmp/all-$TIER-$id.log) inconcl=$(grep -c '^INCONCLUSIVE' /tmp/all-$TIER-$id.log) | $(grep 'exit=' /tmp/all-$TIER-$id.log | tail -1 | cut -c1-150)"
done
