#!/bin/bash
# one-time set-up after a fresh restore (offline): build the native replay driver, warm the MIR dump and
# the Kani build.  Every check rebuilds what it needs from /repo's current tree anyway; this only
# saves time on the first run.
cd "$(dirname "$0")"
export CARGO_NET_OFFLINE=true
export PYTHONPATH=/verif
mkdir -p .cache evidence replays
cp -f /repo/Cargo.lock native/Cargo.lock
cargo build --offline --manifest-path native/Cargo.toml --target-dir .cache/native-target >/dev/null 2>.cache/setup-native.log || { tail -20 .cache/setup-native.log; exit 1; }
RUSTFLAGS='--cfg pricelevel_verif' cargo build --offline --manifest-path native/Cargo.toml --target-dir .cache/native-target-hooks >/dev/null 2>.cache/setup-native-hooks.log || { tail -20 .cache/setup-native-hooks.log; exit 1; }
python3-vt -c "from emir import mir; c=mir.load('/repo'); print('MIR dump', c.info)" || exit 1
cp -f /repo/Cargo.lock kani/Cargo.lock
(cd kani && timeout 900 cargo kani --only-codegen --target-dir /verif/.cache/kani-target >/verif/.cache/setup-kani.log 2>&1 || true)
echo setup done
