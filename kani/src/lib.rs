//! Kani proof harnesses for the `pricelevel` crate at /repo.
//!
//! C05: per-order matching rules of `OrderType::<()>::match_against`
//!      (one harness per order variant, every field symbolic, 64-bit).
//! C02: incremental bookkeeping of `MatchResult::add_transaction`.
//!
//! The oracle in `reference_match` is written from the textual rules of
//! property C05, not from the implementation.

#![cfg(kani)]
#![allow(clippy::too_many_arguments)]

use pricelevel::{MatchResult, OrderId, OrderType, PegReferenceType, Side, TimeInForce, Transaction};
use ulid::Ulid;
use uuid::Uuid;

// ---------------------------------------------------------------------------
// symbolic constructors
// ---------------------------------------------------------------------------

fn any_id() -> OrderId {
    if kani::any() {
        OrderId::Uuid(Uuid::from_bytes(kani::any()))
    } else {
        OrderId::Ulid(Ulid(kani::any()))
    }
}

fn any_side() -> Side {
    if kani::any() { Side::Buy } else { Side::Sell }
}

fn any_tif() -> TimeInForce {
    let sel: u8 = kani::any();
    match sel % 5 {
        0 => TimeInForce::Gtc,
        1 => TimeInForce::Ioc,
        2 => TimeInForce::Fok,
        3 => TimeInForce::Gtd(kani::any()),
        _ => TimeInForce::Day,
    }
}

fn any_peg() -> PegReferenceType {
    let sel: u8 = kani::any();
    match sel % 4 {
        0 => PegReferenceType::BestBid,
        1 => PegReferenceType::BestAsk,
        2 => PegReferenceType::MidPrice,
        _ => PegReferenceType::LastTrade,
    }
}

fn any_opt_u64() -> Option<u64> {
    if kani::any() { Some(kani::any()) } else { None }
}

// ---------------------------------------------------------------------------
// reference model (C05 rules 1, 3, 4, 5)
// ---------------------------------------------------------------------------

#[derive(Clone, Copy)]
enum Kind {
    /// Standard / PostOnly / TrailingStop / PeggedOrder / MarketToLimit
    Plain,
    Iceberg,
    Reserve {
        threshold: u64,
        amount: Option<u64>,
        auto: bool,
    },
}

struct Expected {
    consumed: u64,
    remaining: u64,
    hidden_reduced: u64,
    /// `None`: the order leaves; `Some((D', H'))`: it stays with these quantities.
    stays: Option<(u64, u64)>,
}

fn min64(a: u64, b: u64) -> u64 {
    if a < b { a } else { b }
}

/// d = displayed, h = hidden (0 for Plain), q = incoming.
fn reference_match(kind: Kind, d: u64, h: u64, q: u64) -> Expected {
    // rule 1
    let consumed = min64(q, d);
    let remaining = q - consumed;
    let exhausted = d <= q;

    let (stays, hidden_reduced) = match kind {
        // rule 3
        Kind::Plain => {
            if exhausted {
                (None, 0)
            } else {
                (Some((d - q, 0)), 0)
            }
        }
        // rule 4
        Kind::Iceberg => {
            if exhausted {
                if h == 0 {
                    (None, 0)
                } else {
                    let nd = min64(h, d);
                    (Some((nd, h - nd)), nd)
                }
            } else {
                (Some((d - q, h)), 0)
            }
        }
        // rule 5
        Kind::Reserve {
            threshold,
            amount,
            auto,
        } => {
            let amt = min64(
                match amount {
                    Some(a) => a,
                    None => 80,
                },
                h,
            );
            let thr = if auto && threshold == 0 { 1 } else { threshold };
            if exhausted {
                if h > 0 && auto {
                    (Some((amt, h - amt)), amt)
                } else {
                    (None, 0)
                }
            } else {
                let nv = d - q;
                if nv < thr && h > 0 && auto {
                    (Some((nv + amt, h - amt)), amt)
                } else {
                    (Some((nv, h)), 0)
                }
            }
        }
    };

    Expected {
        consumed,
        remaining,
        hidden_reduced,
        stays,
    }
}

/// Rule 1 plus the "leaves / stays" and hidden_reduced parts of rules 3-5.
/// Returns the expected (D', H') when the order must stay.
fn check_tuple(
    res: &(u64, Option<OrderType<()>>, u64, u64),
    exp: &Expected,
) -> Option<(u64, u64)> {
    assert!(res.0 == exp.consumed, "rule 1: consumed == min(q, D)");
    assert!(res.3 == exp.remaining, "rule 1: remaining == q - consumed");
    assert!(
        res.2 == exp.hidden_reduced,
        "rules 3-5: hidden_reduced has the prescribed value"
    );
    assert!(
        res.1.is_some() == exp.stays.is_some(),
        "rules 3-5: order leaves exactly when prescribed"
    );
    exp.stays
}

/// Rule 2 conservation and rules 3-5 new quantities.
fn check_quantities(nd: u64, nh: u64, d: u64, h: u64, consumed: u64, want: (u64, u64)) {
    assert!(
        nd as u128 + nh as u128 == d as u128 + h as u128 - consumed as u128,
        "rule 2: D' + H' == D + H - consumed"
    );
    assert!(nd == want.0, "rules 3-5: new displayed quantity");
    assert!(nh == want.1, "rules 3-5: new hidden quantity");
}

fn check_common(
    id: OrderId,
    price: u64,
    side: Side,
    timestamp: u64,
    tif: TimeInForce,
    id0: OrderId,
    price0: u64,
    side0: Side,
    timestamp0: u64,
    tif0: TimeInForce,
) {
    assert!(id == id0, "rule 2: id unchanged");
    assert!(price == price0, "rule 2: price unchanged");
    assert!(side == side0, "rule 2: side unchanged");
    assert!(timestamp == timestamp0, "rule 2: timestamp unchanged");
    assert!(tif == tif0, "rule 2: time_in_force unchanged");
}

fn plain_covers(res: &(u64, Option<OrderType<()>>, u64, u64), d: u64, q: u64) {
    kani::cover!(d > q && q > 0, "partial fill reached");
    kani::cover!(d <= q && d > 0, "full fill reached");
    kani::cover!(res.1.is_some(), "updated order returned");
    kani::cover!(res.1.is_none() && res.3 > 0, "order leaves with incoming left over");
}

// ---------------------------------------------------------------------------
// C05 harnesses
// ---------------------------------------------------------------------------

#[kani::proof]
#[kani::unwind(17)]
fn c05_standard() {
    let (id0, price0, d, side0, ts0, tif0) =
        (any_id(), kani::any::<u64>(), kani::any::<u64>(), any_side(), kani::any::<u64>(), any_tif());
    let q: u64 = kani::any();
    let order: OrderType<()> = OrderType::Standard {
        id: id0,
        price: price0,
        quantity: d,
        side: side0,
        timestamp: ts0,
        time_in_force: tif0,
        extra_fields: (),
    };

    let res = order.match_against(q);
    plain_covers(&res, d, q);

    let exp = reference_match(Kind::Plain, d, 0, q);
    if let Some(want) = check_tuple(&res, &exp) {
        match res.1 {
            Some(OrderType::Standard {
                id,
                price,
                quantity,
                side,
                timestamp,
                time_in_force,
                extra_fields: (),
            }) => {
                check_quantities(quantity, 0, d, 0, res.0, want);
                check_common(id, price, side, timestamp, time_in_force, id0, price0, side0, ts0, tif0);
            }
            _ => assert!(false, "rule 2: updated order is the same variant"),
        }
    }
}

#[kani::proof]
#[kani::unwind(17)]
fn c05_post_only() {
    let (id0, price0, d, side0, ts0, tif0) =
        (any_id(), kani::any::<u64>(), kani::any::<u64>(), any_side(), kani::any::<u64>(), any_tif());
    let q: u64 = kani::any();
    let order: OrderType<()> = OrderType::PostOnly {
        id: id0,
        price: price0,
        quantity: d,
        side: side0,
        timestamp: ts0,
        time_in_force: tif0,
        extra_fields: (),
    };

    let res = order.match_against(q);
    plain_covers(&res, d, q);

    let exp = reference_match(Kind::Plain, d, 0, q);
    if let Some(want) = check_tuple(&res, &exp) {
        match res.1 {
            Some(OrderType::PostOnly {
                id,
                price,
                quantity,
                side,
                timestamp,
                time_in_force,
                extra_fields: (),
            }) => {
                check_quantities(quantity, 0, d, 0, res.0, want);
                check_common(id, price, side, timestamp, time_in_force, id0, price0, side0, ts0, tif0);
            }
            _ => assert!(false, "rule 2: updated order is the same variant"),
        }
    }
}

#[kani::proof]
#[kani::unwind(17)]
fn c05_trailing_stop() {
    let (id0, price0, d, side0, ts0, tif0) =
        (any_id(), kani::any::<u64>(), kani::any::<u64>(), any_side(), kani::any::<u64>(), any_tif());
    let trail0: u64 = kani::any();
    let lastref0: u64 = kani::any();
    let q: u64 = kani::any();
    let order: OrderType<()> = OrderType::TrailingStop {
        id: id0,
        price: price0,
        quantity: d,
        side: side0,
        timestamp: ts0,
        time_in_force: tif0,
        trail_amount: trail0,
        last_reference_price: lastref0,
        extra_fields: (),
    };

    let res = order.match_against(q);
    plain_covers(&res, d, q);

    let exp = reference_match(Kind::Plain, d, 0, q);
    if let Some(want) = check_tuple(&res, &exp) {
        match res.1 {
            Some(OrderType::TrailingStop {
                id,
                price,
                quantity,
                side,
                timestamp,
                time_in_force,
                trail_amount,
                last_reference_price,
                extra_fields: (),
            }) => {
                check_quantities(quantity, 0, d, 0, res.0, want);
                check_common(id, price, side, timestamp, time_in_force, id0, price0, side0, ts0, tif0);
                assert!(trail_amount == trail0, "rule 2: trail_amount unchanged");
                assert!(
                    last_reference_price == lastref0,
                    "rule 2: last_reference_price unchanged"
                );
            }
            _ => assert!(false, "rule 2: updated order is the same variant"),
        }
    }
}

#[kani::proof]
#[kani::unwind(17)]
fn c05_pegged() {
    let (id0, price0, d, side0, ts0, tif0) =
        (any_id(), kani::any::<u64>(), kani::any::<u64>(), any_side(), kani::any::<u64>(), any_tif());
    let off0: i64 = kani::any();
    let peg0 = any_peg();
    let q: u64 = kani::any();
    let order: OrderType<()> = OrderType::PeggedOrder {
        id: id0,
        price: price0,
        quantity: d,
        side: side0,
        timestamp: ts0,
        time_in_force: tif0,
        reference_price_offset: off0,
        reference_price_type: peg0,
        extra_fields: (),
    };

    let res = order.match_against(q);
    plain_covers(&res, d, q);

    let exp = reference_match(Kind::Plain, d, 0, q);
    if let Some(want) = check_tuple(&res, &exp) {
        match res.1 {
            Some(OrderType::PeggedOrder {
                id,
                price,
                quantity,
                side,
                timestamp,
                time_in_force,
                reference_price_offset,
                reference_price_type,
                extra_fields: (),
            }) => {
                check_quantities(quantity, 0, d, 0, res.0, want);
                check_common(id, price, side, timestamp, time_in_force, id0, price0, side0, ts0, tif0);
                assert!(
                    reference_price_offset == off0,
                    "rule 2: reference_price_offset unchanged"
                );
                assert!(
                    reference_price_type == peg0,
                    "rule 2: reference_price_type unchanged"
                );
            }
            _ => assert!(false, "rule 2: updated order is the same variant"),
        }
    }
}

#[kani::proof]
#[kani::unwind(17)]
fn c05_market_to_limit() {
    let (id0, price0, d, side0, ts0, tif0) =
        (any_id(), kani::any::<u64>(), kani::any::<u64>(), any_side(), kani::any::<u64>(), any_tif());
    let q: u64 = kani::any();
    let order: OrderType<()> = OrderType::MarketToLimit {
        id: id0,
        price: price0,
        quantity: d,
        side: side0,
        timestamp: ts0,
        time_in_force: tif0,
        extra_fields: (),
    };

    let res = order.match_against(q);
    plain_covers(&res, d, q);

    let exp = reference_match(Kind::Plain, d, 0, q);
    if let Some(want) = check_tuple(&res, &exp) {
        match res.1 {
            Some(OrderType::MarketToLimit {
                id,
                price,
                quantity,
                side,
                timestamp,
                time_in_force,
                extra_fields: (),
            }) => {
                check_quantities(quantity, 0, d, 0, res.0, want);
                check_common(id, price, side, timestamp, time_in_force, id0, price0, side0, ts0, tif0);
            }
            _ => assert!(false, "rule 2: updated order is the same variant"),
        }
    }
}

#[kani::proof]
#[kani::unwind(17)]
fn c05_iceberg() {
    let (id0, price0, d, side0, ts0, tif0) =
        (any_id(), kani::any::<u64>(), kani::any::<u64>(), any_side(), kani::any::<u64>(), any_tif());
    let h: u64 = kani::any();
    let q: u64 = kani::any();
    // the only assumption: displayed + hidden fits in u64
    kani::assume(d.checked_add(h).is_some());
    let order: OrderType<()> = OrderType::IcebergOrder {
        id: id0,
        price: price0,
        visible_quantity: d,
        hidden_quantity: h,
        side: side0,
        timestamp: ts0,
        time_in_force: tif0,
        extra_fields: (),
    };

    let res = order.match_against(q);
    kani::cover!(d > q && q > 0 && h > 0, "partial fill reached");
    kani::cover!(d <= q && d > 0 && h == 0, "full fill reached (order leaves)");
    kani::cover!(d <= q && d > 0 && h > d, "replenish reached (hidden > displayed)");
    kani::cover!(d <= q && d > 0 && h > 0 && h < d, "replenish reached (hidden < displayed)");
    kani::cover!(res.2 > 0 && res.3 > 0, "hidden reduced with incoming left over");
    kani::cover!(res.1.is_none(), "order leaves");

    let exp = reference_match(Kind::Iceberg, d, h, q);
    if let Some(want) = check_tuple(&res, &exp) {
        match res.1 {
            Some(OrderType::IcebergOrder {
                id,
                price,
                visible_quantity,
                hidden_quantity,
                side,
                timestamp,
                time_in_force,
                extra_fields: (),
            }) => {
                check_quantities(visible_quantity, hidden_quantity, d, h, res.0, want);
                check_common(id, price, side, timestamp, time_in_force, id0, price0, side0, ts0, tif0);
            }
            _ => assert!(false, "rule 2: updated order is the same variant"),
        }
    }
}

#[kani::proof]
#[kani::unwind(17)]
fn c05_reserve() {
    let (id0, price0, d, side0, ts0, tif0) =
        (any_id(), kani::any::<u64>(), kani::any::<u64>(), any_side(), kani::any::<u64>(), any_tif());
    let h: u64 = kani::any();
    let thr0: u64 = kani::any();
    let amt0: Option<u64> = any_opt_u64();
    let auto0: bool = kani::any();
    let q: u64 = kani::any();
    // the only assumption: displayed + hidden fits in u64
    kani::assume(d.checked_add(h).is_some());
    let order: OrderType<()> = OrderType::ReserveOrder {
        id: id0,
        price: price0,
        visible_quantity: d,
        hidden_quantity: h,
        side: side0,
        timestamp: ts0,
        time_in_force: tif0,
        replenish_threshold: thr0,
        replenish_amount: amt0,
        auto_replenish: auto0,
        extra_fields: (),
    };

    let res = order.match_against(q);
    kani::cover!(d <= q && d > 0 && h > 0 && auto0, "exhausted-replenish reached");
    kani::cover!(
        d > q && q > 0 && d - q < thr0 && h > 0 && auto0,
        "threshold-replenish reached"
    );
    kani::cover!(
        d > q && thr0 == 0 && auto0 && h > 0,
        "partial fill with threshold 0 and auto_replenish"
    );
    kani::cover!(
        d > q && q > 0 && d - q >= thr0 && thr0 > 1 && h > 0 && auto0,
        "partial fill without replenish"
    );
    kani::cover!(d <= q && d > 0 && h > 0 && !auto0, "full fill, no auto_replenish (order leaves with hidden)");
    kani::cover!(d <= q && d > 0 && h == 0, "full fill, nothing hidden");
    kani::cover!(amt0 == Some(0) && res.1.is_some() && d <= q && h > 0, "replenish_amount Some(0) on exhaustion");
    kani::cover!(amt0.is_none() && res.2 == 80, "default replenish amount used");
    kani::cover!(amt0.is_none() && res.2 > 0 && res.2 < 80, "default replenish amount capped by hidden");
    kani::cover!(res.2 > 0 && res.3 > 0, "hidden reduced with incoming left over");

    let exp = reference_match(
        Kind::Reserve {
            threshold: thr0,
            amount: amt0,
            auto: auto0,
        },
        d,
        h,
        q,
    );
    if let Some(want) = check_tuple(&res, &exp) {
        match res.1 {
            Some(OrderType::ReserveOrder {
                id,
                price,
                visible_quantity,
                hidden_quantity,
                side,
                timestamp,
                time_in_force,
                replenish_threshold,
                replenish_amount,
                auto_replenish,
                extra_fields: (),
            }) => {
                check_quantities(visible_quantity, hidden_quantity, d, h, res.0, want);
                check_common(id, price, side, timestamp, time_in_force, id0, price0, side0, ts0, tif0);
                assert!(
                    replenish_threshold == thr0,
                    "rule 2: replenish_threshold unchanged"
                );
                assert!(replenish_amount == amt0, "rule 2: replenish_amount unchanged");
                assert!(auto_replenish == auto0, "rule 2: auto_replenish unchanged");
            }
            _ => assert!(false, "rule 2: updated order is the same variant"),
        }
    }
}

// ---------------------------------------------------------------------------
// C02 harness
// ---------------------------------------------------------------------------

/// Maximum number of appended transactions.
const C02_MAX_K: usize = 4;

fn any_transaction(taker: OrderId) -> Transaction {
    Transaction {
        transaction_id: if kani::any() {
            Uuid::from_bytes(kani::any())
        } else {
            Uuid::nil()
        },
        taker_order_id: taker,
        maker_order_id: any_id(),
        price: kani::any(),
        quantity: kani::any(),
        taker_side: any_side(),
        timestamp: kani::any(),
    }
}

#[kani::proof]
#[kani::unwind(6)]
fn c02_add_transaction() {
    let q0: u64 = kani::any();
    let taker = any_id();
    let mut result = MatchResult::new(taker, q0);

    assert!(result.remaining_quantity == q0, "new: remaining == initial");
    assert!(result.transactions.as_vec().len() == 0, "new: no transactions");

    let k: usize = kani::any();
    kani::assume(k <= C02_MAX_K);

    let mut sum: u128 = 0;
    let mut n: usize = 0;
    while n < k {
        let t = any_transaction(taker);
        sum += t.quantity as u128;
        result.add_transaction(t);
        n += 1;

        kani::cover!(n >= 2 && q0 > 0 && sum == q0 as u128, "sum exactly equals q0 with k >= 2");
        kani::cover!(n == 2 && result.remaining_quantity > 0, "remaining > 0 after 2 appends");
        kani::cover!(n == C02_MAX_K, "maximum number of appends reached");
        kani::cover!(sum > q0 as u128, "over-fill reached (unchecked region)");

        assert!(
            result.transactions.as_vec().len() == n,
            "transactions.len() == number appended"
        );
        if sum <= q0 as u128 {
            assert!(
                result.remaining_quantity == q0 - sum as u64,
                "remaining_quantity == q0 - sum"
            );
            assert!(
                result.is_complete == (result.remaining_quantity == 0),
                "is_complete == (remaining_quantity == 0)"
            );
        }
    }

    if sum <= q0 as u128 {
        kani::cover!(k == C02_MAX_K && sum > 0, "executed_quantity checked at max k");
        assert!(
            result.executed_quantity() as u128 == sum,
            "executed_quantity() == sum"
        );
    }

    std::mem::forget(result);
}
