#!/usr/bin/env bash
# Run ONE Kani proof harness of the pl-kani crate against /repo.
#
#   usage: run.sh <harness-name>
#
# Writes the full log to /verif/.cache/kani-logs/<harness>.log and prints
# exactly one final line
#   RESULT <harness> PASS|FAIL|ERROR time_s=<s> checks=<n>
# exit 0 PASS  : VERIFICATION:- SUCCESSFUL and every kani::cover! SATISFIED
# exit 1 FAIL  : VERIFICATION:- FAILED with at least one failed (non-unwinding) check;
#                a concrete counterexample is written to <harness>.playback.rs
# exit 2 ERROR : build error, timeout, OOM, unwinding-assertion failure,
#                vacuous harness (UNSATISFIED / UNREACHABLE cover, or no cover at all), ...
#
# env: KANI_TIMEOUT (seconds, default 600), KANI_TARGET_DIR, KANI_LOG_DIR, KANI_REPO (default /repo)

set -u
export CARGO_NET_OFFLINE=true

H="${1:-}"
if [ -z "$H" ]; then
    echo "usage: $0 <harness-name>" >&2
    echo "RESULT <none> ERROR time_s=0 checks=0"
    exit 2
fi

HERE="$(cd "$(dirname "${BASH_SOURCE[0]}")" && pwd)"
REPO="${KANI_REPO:-/repo}"
TIMEOUT="${KANI_TIMEOUT:-600}"
TARGET="${KANI_TARGET_DIR:-/verif/.cache/kani-target}"
LOGDIR="${KANI_LOG_DIR:-/verif/.cache/kani-logs}"
LOG="$LOGDIR/$H.log"
PB="$LOGDIR/$H.playback.rs"
PBLOG="$LOGDIR/$H.playback.log"

mkdir -p "$LOGDIR" "$TARGET"
rm -f "$LOG" "$PB" "$PBLOG"

# /repo may have changed: always resolve against its current lock file.
cp -f "$REPO/Cargo.lock" "$HERE/Cargo.lock" 2>/dev/null

cd "$HERE" || { echo "RESULT $H ERROR time_s=0 checks=0"; exit 2; }

ulimit -v $((24 * 1024 * 1024))   # 24 GB, in KiB

now() { date +%s.%N; }
T0=$(now)
timeout --kill-after=10 "$TIMEOUT" \
    cargo kani --harness "$H" --exact --target-dir "$TARGET" >"$LOG" 2>&1
RC=$?
T1=$(now)
SECS=$(awk -v a="$T0" -v b="$T1" 'BEGIN{printf "%.1f", b-a}')

# " ** 0 of 1071 failed (17 unreachable)"
CHECKS=$(sed -n 's/^ \*\* [0-9][0-9]* of \([0-9][0-9]*\) failed.*/\1/p' "$LOG" | tail -1)
CHECKS="${CHECKS:-0}"

finish() { # status exitcode
    echo "RESULT $H $1 time_s=$SECS checks=$CHECKS"
    exit "$2"
}

if [ "$RC" -eq 124 ] || [ "$RC" -eq 137 ]; then
    echo "[run.sh] timeout after ${TIMEOUT}s (rc=$RC)" >>"$LOG"
    finish ERROR 2
fi

# the harness must actually have been run (exactly one)
if ! grep -q "^Complete - [0-9]* successfully verified harnesses, [0-9]* failures, 1 total" "$LOG"; then
    echo "[run.sh] harness not found / build error / crash (rc=$RC)" >>"$LOG"
    finish ERROR 2
fi

# cover properties: "<n> of <m> cover properties satisfied"
COV_SAT=$(sed -n 's/^ \*\* \([0-9][0-9]*\) of \([0-9][0-9]*\) cover properties satisfied.*/\1/p' "$LOG" | tail -1)
COV_ALL=$(sed -n 's/^ \*\* \([0-9][0-9]*\) of \([0-9][0-9]*\) cover properties satisfied.*/\2/p' "$LOG" | tail -1)
# per-check view: any "<fn>.cover.<n>" check whose status is not SATISFIED
# (ordinary assertions may legitimately be UNREACHABLE, so only look at covers)
COV_BAD=$(awk '
    /^Check [0-9]+: .*\.cover\.[0-9]+$/ { c=1; next }
    c && /- Status:/ { if ($0 !~ /Status: SATISFIED$/) n++; c=0 }
    END { print n+0 }' "$LOG")

if grep -q "^VERIFICATION:- FAILED" "$LOG"; then
    # Which checks failed?  Unwinding-assertion failures alone are a harness
    # inadequacy (ERROR), not a property violation.
    FAILED_DESCS=$(awk '/Status: FAILURE/{getline; print}' "$LOG")
    REAL=$(printf '%s\n' "$FAILED_DESCS" | grep -v -i "unwinding assertion" | grep -c "Description")
    if [ "$REAL" -eq 0 ]; then
        echo "[run.sh] VERIFICATION FAILED without a failed property check (unwinding / other)" >>"$LOG"
        finish ERROR 2
    fi

    # concrete counterexample
    timeout --kill-after=10 "$TIMEOUT" \
        cargo kani --harness "$H" --exact --target-dir "$TARGET" \
        -Z concrete-playback --concrete-playback=print >"$PBLOG" 2>&1
    # keep the generated unit tests that belong to failed checks (skip cover witnesses)
    awk '
        /^Concrete playback unit test for/ { want=1; next }
        want && /^```$/ && !inblk { inblk=1; buf=""; iscover=0; next }
        inblk && /^```$/ { if (!iscover) printf "%s\n", buf; inblk=0; want=0; next }
        inblk { if ($0 ~ /^\/\/\/ Check for `cover`/) iscover=1; buf = buf $0 "\n" }
    ' "$PBLOG" >"$PB"
    if [ ! -s "$PB" ]; then
        echo "[run.sh] WARNING: concrete playback produced no unit test, see $PBLOG" >>"$LOG"
        rm -f "$PB"
    fi
    finish FAIL 1
fi

if grep -q "^VERIFICATION:- SUCCESSFUL" "$LOG" && [ "$RC" -eq 0 ]; then
    if [ -z "$COV_ALL" ] || [ "$COV_ALL" -eq 0 ]; then
        echo "[run.sh] no cover properties reported: cannot rule out vacuity" >>"$LOG"
        finish ERROR 2
    fi
    if [ "$COV_SAT" -ne "$COV_ALL" ] || [ "$COV_BAD" -ne 0 ]; then
        echo "[run.sh] vacuity: $COV_SAT of $COV_ALL covers satisfied" >>"$LOG"
        finish ERROR 2
    fi
    finish PASS 0
fi

echo "[run.sh] unrecognised outcome (rc=$RC)" >>"$LOG"
finish ERROR 2
