//! Native replay driver: executes a JSON script against the real `pricelevel` crate
//! (real dashmap / crossbeam / clock) and prints what happened as JSON.
//! Used (a) to validate the symbolic executor's predictions on witness models and
//! (b) to confirm every counterexample before it is reported.
use pricelevel::{
    OrderId, OrderQueue, OrderType, OrderUpdate, PriceLevel, PriceLevelData, PriceLevelSnapshot, Side,
    UuidGenerator,
};
use serde_json::{json, Value};
use std::str::FromStr;
use std::sync::mpsc;
use std::sync::Arc;
use std::time::Duration;
use uuid::Uuid;

fn oid(v: &Value) -> OrderId {
    OrderId::from_str(v.as_str().expect("id string")).expect("order id")
}

fn order(v: &Value) -> OrderType<()> {
    serde_json::from_value(v.clone()).expect("order json")
}

fn order_json(o: &OrderType<()>) -> Value {
    serde_json::to_value(o).unwrap()
}

fn observe(level: &PriceLevel) -> Value {
    let orders: Vec<Value> = level.iter_orders().iter().map(|o| order_json(o)).collect();
    let st = level.stats();
    json!({
        "price": level.price(),
        "visible": level.visible_quantity(),
        "hidden": level.hidden_quantity(),
        "count": level.order_count(),
        "orders": orders,
        "stats": {
            "orders_added": st.orders_added(),
            "orders_removed": st.orders_removed(),
            "orders_executed": st.orders_executed(),
            "quantity_executed": st.quantity_executed(),
            "value_executed": st.value_executed(),
        }
    })
}

fn update_of(op: &Value) -> OrderUpdate {
    let id = oid(&op["id"]);
    match op["kind"].as_str().unwrap() {
        "UpdatePrice" => OrderUpdate::UpdatePrice { order_id: id, new_price: op["price"].as_u64().unwrap() },
        "UpdateQuantity" => {
            OrderUpdate::UpdateQuantity { order_id: id, new_quantity: op["quantity"].as_u64().unwrap() }
        }
        "UpdatePriceAndQuantity" => OrderUpdate::UpdatePriceAndQuantity {
            order_id: id,
            new_price: op["price"].as_u64().unwrap(),
            new_quantity: op["quantity"].as_u64().unwrap(),
        },
        "Cancel" => OrderUpdate::Cancel { order_id: id },
        "Replace" => OrderUpdate::Replace {
            order_id: id,
            price: op["price"].as_u64().unwrap(),
            quantity: op["quantity"].as_u64().unwrap(),
            side: if op["side"].as_str().unwrap_or("BUY") == "BUY" { Side::Buy } else { Side::Sell },
        },
        k => panic!("unknown update kind {k}"),
    }
}

fn match_json(r: &pricelevel::MatchResult) -> Value {
    let txs: Vec<Value> = r
        .transactions
        .as_vec()
        .iter()
        .map(|t| {
            json!({
                "transaction_id": t.transaction_id.to_string(),
                "taker": t.taker_order_id.to_string(),
                "maker": t.maker_order_id.to_string(),
                "price": t.price,
                "quantity": t.quantity,
                "taker_side": t.taker_side.to_string(),
            })
        })
        .collect();
    json!({
        "order_id": r.order_id.to_string(),
        "remaining": r.remaining_quantity,
        "is_complete": r.is_complete,
        "transactions": txs,
        "filled": r.filled_order_ids.iter().map(|i| i.to_string()).collect::<Vec<_>>(),
    })
}

/// one operation on the level; returns its JSON result
fn apply(level: &mut Arc<PriceLevel>, generator: &Arc<UuidGenerator>, op: &Value) -> Value {
    match op["op"].as_str().unwrap() {
        "add" => {
            let o = level.add_order(order(&op["order"]));
            json!({"added": order_json(&o)})
        }
        "match" => {
            let r = level.match_order(op["quantity"].as_u64().unwrap(), oid(&op["taker"]), generator);
            json!({"match": match_json(&r)})
        }
        "update" => match level.update_order(update_of(op)) {
            Ok(Some(o)) => json!({"update": "some", "order": order_json(&o)}),
            Ok(None) => json!({"update": "none"}),
            Err(e) => json!({"update": "err", "error": e.to_string()}),
        },
        "observe" => json!({}),
        "next" => {
            let n = op["n"].as_u64().unwrap_or(1);
            let ids: Vec<String> = (0..n).map(|_| generator.next().to_string()).collect();
            json!({"ids": ids})
        }
        "restore_snapshot" => {
            let snap = level.snapshot();
            match PriceLevel::from_snapshot(snap) {
                Ok(l) => {
                    *level = Arc::new(l);
                    json!({"restored": "snapshot"})
                }
                Err(e) => json!({"restored": "err", "error": e.to_string()}),
            }
        }
        "restore_from_ref" => {
            let snap = level.snapshot();
            *level = Arc::new(PriceLevel::from(&snap));
            json!({"restored": "from_ref"})
        }
        "restore_package" => {
            let r = level.snapshot_package().and_then(PriceLevel::from_snapshot_package);
            match r {
                Ok(l) => {
                    *level = Arc::new(l);
                    json!({"restored": "package"})
                }
                Err(e) => json!({"restored": "err", "error": e.to_string()}),
            }
        }
        "restore_json" => {
            let r = level.snapshot_to_json().and_then(|s| PriceLevel::from_snapshot_json(&s));
            match r {
                Ok(l) => {
                    *level = Arc::new(l);
                    json!({"restored": "json"})
                }
                Err(e) => json!({"restored": "err", "error": e.to_string()}),
            }
        }
        "restore_data" => {
            let data = PriceLevelData::from(&**level);
            match PriceLevel::try_from(data) {
                Ok(l) => {
                    *level = Arc::new(l);
                    json!({"restored": "data"})
                }
                Err(e) => json!({"restored": "err", "error": e.to_string()}),
            }
        }
        "from_snapshot_with" => {
            // build a level from an externally supplied snapshot whose aggregates may disagree
            let mut snap = PriceLevelSnapshot::new(op["price"].as_u64().unwrap());
            snap.visible_quantity = op["visible"].as_u64().unwrap();
            snap.hidden_quantity = op["hidden"].as_u64().unwrap();
            snap.order_count = op["count"].as_u64().unwrap() as usize;
            snap.orders = op["orders"].as_array().unwrap().iter().map(|o| Arc::new(order(o))).collect();
            let l = match op["via"].as_str().unwrap_or("from_snapshot") {
                "from_ref" => PriceLevel::from(&snap),
                _ => PriceLevel::from_snapshot(snap).expect("from_snapshot"),
            };
            *level = Arc::new(l);
            json!({"restored": "external"})
        }
        "tamper_restore" => {
            // serialized package of the current level, with version and snapshot content replaced, fed to the restore path
            let text = level.snapshot_to_json().expect("snapshot_to_json");
            let mut v: Value = serde_json::from_str(&text).unwrap();
            if let Some(ver) = op.get("version") {
                v["version"] = ver.clone();
            }
            if let Some(s) = op.get("snapshot") {
                v["snapshot"] = s.clone();
            }
            match PriceLevel::from_snapshot_json(&v.to_string()) {
                Ok(l) => {
                    *level = Arc::new(l);
                    json!({"restore": "ok"})
                }
                Err(e) => json!({"restore": "err", "error": e.to_string()}),
            }
        }
        "from_data_with" => {
            let data = PriceLevelData {
                price: op["price"].as_u64().unwrap(),
                visible_quantity: op["visible"].as_u64().unwrap(),
                hidden_quantity: op["hidden"].as_u64().unwrap(),
                order_count: op["count"].as_u64().unwrap() as usize,
                orders: op["orders"].as_array().unwrap().iter().map(order).collect(),
            };
            *level = Arc::new(PriceLevel::try_from(data).expect("try_from"));
            json!({"restored": "external-data"})
        }
        k => panic!("unknown op {k}"),
    }
}

/// operations on a bare OrderQueue
fn apply_queue(q: &mut OrderQueue, op: &Value) -> Value {
    let list = |q: &OrderQueue| -> Value { q.to_vec().iter().map(|o| order_json(o)).collect::<Vec<_>>().into() };
    match op["op"].as_str().unwrap() {
        "push" => {
            q.push(Arc::new(order(&op["order"])));
            json!({})
        }
        "pop" => match q.pop() {
            Some(o) => json!({"some": order_json(&o)}),
            None => json!({"none": true}),
        },
        "find" => match q.find(oid(&op["id"])) {
            Some(o) => json!({"some": order_json(&o)}),
            None => json!({"none": true}),
        },
        "remove" => match q.remove(oid(&op["id"])) {
            Some(o) => json!({"some": order_json(&o)}),
            None => json!({"none": true}),
        },
        "len" => json!({"len": q.len(), "is_empty": q.is_empty()}),
        "to_vec" => json!({"list": list(q)}),
        "from_vec" => {
            let v: Vec<Arc<OrderType<()>>> =
                op["orders"].as_array().unwrap().iter().map(|o| Arc::new(order(o))).collect();
            *q = if op["via"].as_str() == Some("from") { OrderQueue::from(v) } else { OrderQueue::from_vec(v) };
            json!({})
        }
        k => panic!("unknown queue op {k}"),
    }
}

fn run_level(script: &Value) -> Value {
    let price = script["price"].as_u64().unwrap();
    let ns = Uuid::from_str(script["namespace"].as_str().unwrap_or("6ba7b810-9dad-11d1-80b4-00c04fd430c8")).unwrap();
    let timeout = Duration::from_millis(script["op_timeout_ms"].as_u64().unwrap_or(3000));
    let ops = script["ops"].as_array().unwrap().clone();
    let mut level = Arc::new(PriceLevel::new(price));
    let generator = Arc::new(match script.get("generator_counter").and_then(|c| c.as_u64()) {
        // the generator is (de)serializable: that is the public way to obtain one that has already issued ids
        Some(c0) => serde_json::from_value::<UuidGenerator>(json!({"namespace": ns.to_string(), "counter": c0})).unwrap(),
        None => UuidGenerator::new(ns),
    });
    let mut out = Vec::new();
    for op in ops {
        // each op runs on its own thread so that a non-terminating or panicking call is reported
        let (tx, rx) = mpsc::channel();
        let mut l2 = level.clone();
        let g2 = generator.clone();
        let op2 = op.clone();
        let h = std::thread::spawn(move || {
            let r = std::panic::catch_unwind(std::panic::AssertUnwindSafe(|| {
                let res = apply(&mut l2, &g2, &op2);
                (res, l2)
            }));
            let _ = tx.send(r);
        });
        match rx.recv_timeout(timeout) {
            Ok(Ok((res, l2))) => {
                let _ = h.join();
                level = l2;
                let mut res = res;
                res["state"] = observe(&level);
                out.push(res);
            }
            Ok(Err(p)) => {
                let msg = p
                    .downcast_ref::<String>()
                    .cloned()
                    .or_else(|| p.downcast_ref::<&str>().map(|s| s.to_string()))
                    .unwrap_or_else(|| "panic".into());
                out.push(json!({"panic": msg}));
                break;
            }
            Err(_) => {
                out.push(json!({"timeout": true}));
                break;
            }
        }
    }
    json!({"results": out})
}

/// direct calls of per-order functions
fn run_order(script: &Value) -> Value {
    let mut out = Vec::new();
    for op in script["ops"].as_array().unwrap() {
        let r = std::panic::catch_unwind(std::panic::AssertUnwindSafe(|| {
            let o = order(&op["order"]);
            match op["op"].as_str().unwrap() {
                "match_against" => {
                    let (consumed, updated, hidden_reduced, remaining) =
                        o.match_against(op["incoming"].as_u64().unwrap());
                    json!({"consumed": consumed, "updated": updated.map(|u| order_json(&u)),
                           "hidden_reduced": hidden_reduced, "remaining": remaining})
                }
                "with_reduced_quantity" => {
                    json!({"order": order_json(&o.with_reduced_quantity(op["quantity"].as_u64().unwrap()))})
                }
                k => panic!("unknown order op {k}"),
            }
        }));
        match r {
            Ok(v) => out.push(v),
            Err(_) => {
                out.push(json!({"panic": true}));
                break;
            }
        }
    }
    json!({"results": out})
}

fn run_queue(script: &Value) -> Value {
    let mut q = OrderQueue::new();
    let mut out = Vec::new();
    for op in script["ops"].as_array().unwrap() {
        let r = std::panic::catch_unwind(std::panic::AssertUnwindSafe(|| apply_queue(&mut q, op)));
        match r {
            Ok(v) => out.push(v),
            Err(_) => {
                out.push(json!({"panic": true}));
                break;
            }
        }
    }
    json!({"results": out})
}

/// two (or more) threads under a prescribed well-nested schedule: thread A performs `k` shared-memory
/// steps, then thread B runs to completion, then A continues (k = null: B runs after A)
#[cfg(pricelevel_verif)]
fn run_concurrent(script: &Value) -> Value {
    use std::sync::{Condvar, Mutex};
    // well-nested schedules of up to four threads: thread i+1 runs completely after thread i has performed
    // `switch_at[i+1]` shared-memory steps (null: it runs after the outermost thread has finished)
    struct Sch {
        turn: usize,
        steps: Vec<usize>,
        switch_at: Vec<Option<usize>>,
        started: Vec<bool>,
        done: Vec<bool>,
        by_hook: Vec<bool>,
    }
    thread_local! { static WHO: std::cell::Cell<usize> = const { std::cell::Cell::new(usize::MAX) }; }
    let price = script["price"].as_u64().unwrap();
    let ns = Uuid::from_str(script["namespace"].as_str().unwrap()).unwrap();
    let mut level = Arc::new(PriceLevel::new(price));
    let generator = Arc::new(match script.get("generator_counter").and_then(|c| c.as_u64()) {
        // the generator is (de)serializable: that is the public way to obtain one that has already issued ids
        Some(c0) => serde_json::from_value::<UuidGenerator>(json!({"namespace": ns.to_string(), "counter": c0})).unwrap(),
        None => UuidGenerator::new(ns),
    });
    for op in script["setup"].as_array().unwrap() {
        apply(&mut level, &generator, op);
    }
    let threads = script["threads"].as_array().unwrap().clone();
    let n = threads.len();
    let names = ["A", "B", "C", "D"];
    let queue_only = script["queue_only"].as_bool().unwrap_or(false);
    // bare queue: the same set-up translated to queue calls (add -> push, same-quantity amend -> remove + push, cancel -> remove)
    let bare = Arc::new(OrderQueue::new());
    if queue_only {
        for op in script["setup"].as_array().unwrap() {
            match op["op"].as_str().unwrap() {
                "add" => bare.push(Arc::new(order(&op["order"]))),
                "update" => {
                    let id = oid(&op["id"]);
                    if let Some(o) = bare.remove(id) {
                        if op["kind"].as_str() == Some("UpdateQuantity") {
                            bare.push(o);
                        }
                    }
                }
                _ => {}
            }
        }
    }
    let mut switch_at = vec![None; n];
    for i in 1..n {
        switch_at[i] = script["schedule"][names[i]].as_u64().map(|x| x as usize);
    }
    let sch = Arc::new((
        Mutex::new(Sch { turn: 0, steps: vec![0; n], switch_at, started: vec![false; n], done: vec![false; n], by_hook: vec![false; n] }),
        Condvar::new(),
    ));
    let s2 = sch.clone();
    pricelevel::verif_hooks::set_yield_hook(Some(Box::new(move |_site| {
        let i = WHO.with(|w| w.get());
        if i == usize::MAX {
            return;
        }
        let (m, cv) = &*s2;
        let mut g = m.lock().unwrap();
        let c = i + 1;
        if c < g.started.len() && !g.started[c] && g.switch_at[c] == Some(g.steps[i]) {
            g.started[c] = true;
            g.by_hook[c] = true;
            g.turn = c;
            cv.notify_all();
            while !g.done[c] {
                g = cv.wait(g).unwrap();
            }
        }
        g.steps[i] += 1;
    })));
    let mut handles = Vec::new();
    for (i, op) in threads.iter().enumerate() {
        let mut l2 = level.clone();
        let g2 = generator.clone();
        let op2 = op.clone();
        let sc = sch.clone();
        let bare2 = bare.clone();
        handles.push(std::thread::spawn(move || {
            WHO.with(|w| w.set(i));
            let (m, cv) = &*sc;
            {
                let mut g = m.lock().unwrap();
                while g.turn != i {
                    g = cv.wait(g).unwrap();
                }
                g.started[i] = true;
            }
            let bq = bare2.clone();
            let r = std::panic::catch_unwind(std::panic::AssertUnwindSafe(|| {
                let some = |o: Option<Arc<OrderType<()>>>| match o {
                    Some(o) => json!({"q": "some", "order": order_json(&o)}),
                    None => json!({"q": "none"}),
                };
                match op2["op"].as_str().unwrap() {
                    "qpush" => {
                        bq.push(Arc::new(order(&op2["order"])));
                        json!({"pushed": true})
                    }
                    "qpop" => some(bq.pop()),
                    "qremove" => some(bq.remove(oid(&op2["id"]))),
                    "qfind" => some(bq.find(oid(&op2["id"]))),
                    _ => apply(&mut l2, &g2, &op2),
                }
            }));
            let mut g = m.lock().unwrap();
            g.done[i] = true;
            if g.by_hook[i] {
                // the parent is waiting inside its hook
                g.turn = i - 1;
            } else {
                // next thread that has not run yet (it runs after everything that ran so far)
                let next = (0..g.started.len()).find(|&j| !g.started[j]);
                g.turn = next.unwrap_or(usize::MAX - 1);
            }
            cv.notify_all();
            drop(g);
            match r {
                Ok(v) => v,
                Err(_) => json!({"panic": true}),
            }
        }));
    }
    let mut results = serde_json::Map::new();
    for (i, h) in handles.into_iter().enumerate() {
        results.insert(names[i].to_string(), h.join().unwrap_or(json!({"panic": true})));
    }
    pricelevel::verif_hooks::set_yield_hook(None);
    let (m, _) = &*sch;
    let g = m.lock().unwrap();
    let mut state = observe(&level);
    if queue_only {
        state["orders"] = bare.to_vec().iter().map(|o| order_json(o)).collect::<Vec<_>>().into();
    }
    let inside: Vec<bool> = g.by_hook.clone();
    json!({"threads": results, "state": state, "steps": g.steps, "switched_inside": inside.get(1).copied().unwrap_or(false), "nested": inside})
}

#[cfg(not(pricelevel_verif))]
fn run_concurrent(_script: &Value) -> Value {
    json!({"error": "driver built without --cfg pricelevel_verif"})
}

fn main() {
    std::panic::set_hook(Box::new(|_| {}));
    let path = std::env::args().nth(1).expect("usage: pl-native <script.json>");
    let text = std::fs::read_to_string(&path).expect("read script");
    let script: Value = serde_json::from_str(&text).expect("script json");
    let res = match script["kind"].as_str().unwrap_or("level") {
        "queue" => run_queue(&script),
        "order" => run_order(&script),
        "concurrent" => run_concurrent(&script),
        _ => run_level(&script),
    };
    println!("{}", serde_json::to_string(&res).unwrap());
    // a spinning op thread must not keep the process alive
    std::process::exit(0);
}
