"""General models of the std combinators a maintainer's refactoring typically introduces: the lazy iterator
adaptors and consumers (over the Vec/slice/DashMap iterators of models.py), Option / Result / bool combinators
that take closures or function items, and integer comparison (`Ord::cmp`).

Iterator values are python tuples:
  ('veciter', VecV, idx, 'val'|'ref')        source (models.py)
  ('mapiter', inner, f) ('filteriter', inner, f) ('filtermapiter', inner, f) ('inspectiter', inner, f)
  ('enumiter', inner) ('zipiter', a, b) ('chainiter', a, b) ('derefiter', inner)   (cloned / copied)
  ('takeiter', inner, n) ('skipiter', inner, n) ('reviter', inner)
The consumers walk the source elements in order and push each one through the adaptor pipeline before the next
one is touched - the evaluation order of closure side effects is that of the real lazy iterators.
"""
from . import sym as S
from .values import (Unsupported, UNDEF, UNIT, EnumV, RefV, VecV, merge, veq, none, some, option, enum_const)

ADAPTORS = 'Map|Filter|FilterMap|Inspect|Enumerate|Zip|Chain|Cloned|Copied|Take|Skip|Rev|Iter|IntoIter|Drain|IntoValues|I|FromFn|TakeWhile|SkipWhile|Once|Empty'
SOURCES = 'Iter|IntoIter|Drain|IntoValues'


def b64(i):
    return S.bv(i, 64)


class Ctx(object):
    """threaded state of a consumer: current state, liveness"""

    def __init__(self, ex, st, pc):
        self.ex, self.st, self.pc, self.live = ex, st, pc, S.TRUE

    def call(self, cl, args, g):
        """call closure cl(args) under guard g; returns the result (meaningful only where g holds) or None if the
        closure never returns under g"""
        from .exec import merge_states
        if g is S.FALSE:
            return None
        base = self.st
        r, st2, l2 = self.ex.call_closure(cl, args, base.copy() if g is not S.TRUE else base, S.And(self.pc, self.live, g))
        if st2 is None or l2 is S.FALSE:
            self.live = S.And(self.live, S.Not(g))
            return None
        self.st = merge_states([(g, st2), (S.Not(g), base)]) if g is not S.TRUE else st2
        self.live = S.And(self.live, S.Or(S.Not(g), l2))
        return r

    def ref(self, v, tag='tmp'):
        return RefV(self.ex.alloc(self.st, v, tag), ())


def _is_iter(v):
    return isinstance(v, tuple) and len(v) > 0 and isinstance(v[0], str) and v[0].endswith('iter')


def _src_len_unused(it):
    """number of source positions an iterator can yield from (python int upper bound)"""
    k = it[0]
    if k == 'veciter':
        return len(it[1].cells)
    if k in ('zipiter',):
        return min(_src_len(it[1]), _src_len(it[2]))
    if k == 'chainiter':
        return _src_len(it[1]) + _src_len(it[2])
    return _src_len(it[1])


def items(cx, it, stop=None):
    """generator of (guard, element) in iteration order; closures of the adaptors are called lazily, element by
    element.  `stop` is a one-element list holding a condition under which the consumer has stopped pulling (short
    circuit): it is conjoined (negated) to every later guard."""
    k = it[0]

    def live_guard(g):
        if stop is not None and stop[0] is not S.FALSE:
            return S.And(g, S.Not(stop[0]))
        return g
    if k == 'veciter':
        _, vec, idx, mode = it
        if not S.is_const(idx):
            # partly consumed with a symbolic position: positions i >= idx
            for i, e in enumerate(vec.cells):
                if e is UNDEF:
                    continue
                g = live_guard(S.And(S.Ule(idx, b64(i)), S.Ult(b64(i), vec.length)))
                if g is S.FALSE:
                    continue
                yield g, (cx.ref(e, 'elem') if mode == 'ref' else e)
            return
        for i in range(S.cval(idx), len(vec.cells)):
            e = vec.cells[i]
            if e is UNDEF:
                continue
            g = live_guard(S.Ult(b64(i), vec.length))
            if g is S.FALSE:
                continue
            yield g, (cx.ref(e, 'elem') if mode == 'ref' else e)
    elif k == 'mapiter':
        for g, e in items(cx, it[1], stop):
            g = live_guard(g)
            r = cx.call(it[2], [e], g)
            if r is not None:
                yield g, r
    elif k == 'inspectiter':
        for g, e in items(cx, it[1], stop):
            g = live_guard(g)
            cx.call(it[2], [cx.ref(e)], g)
            yield g, e
    elif k == 'filteriter':
        for g, e in items(cx, it[1], stop):
            g = live_guard(g)
            r = cx.call(it[2], [cx.ref(e)], g)
            if r is not None:
                yield S.And(g, r), e
    elif k == 'filtermapiter':
        for g, e in items(cx, it[1], stop):
            g = live_guard(g)
            r = cx.call(it[2], [e], g)
            if r is not None:
                p = r.payloads.get(1, UNDEF)
                if p is not UNDEF:
                    yield S.And(g, S.Eq(r.tag, b64(1))), p[0]
    elif k == 'derefiter':
        for g, e in items(cx, it[1], stop):
            v = e
            if isinstance(v, RefV):
                v = cx.ex.models.rd(cx.st, v)
            yield g, v
    elif k == 'enumiter':
        n = b64(0)
        for g, e in items(cx, it[1], stop):
            yield g, (n, e)
            n = S.Ite(g, S.Add(n, b64(1)), n)
    elif k == 'takeiter':
        n = b64(0)
        for g, e in items(cx, it[1], stop):
            g2 = S.And(g, S.Ult(n, it[2]))
            yield g2, e
            n = S.Ite(g, S.Add(n, b64(1)), n)
    elif k == 'skipiter':
        n = b64(0)
        for g, e in items(cx, it[1], stop):
            yield S.And(g, S.Uge(n, it[2])), e
            n = S.Ite(g, S.Add(n, b64(1)), n)
    elif k == 'chainiter':
        for x in items(cx, it[1], stop):
            yield x
        for x in items(cx, it[2], stop):
            yield x
    elif k == 'zipiter':
        ga = items(cx, it[1], stop)
        gb = items(cx, it[2], stop)
        if not (_prefix(it[1]) and _prefix(it[2])):
            raise Unsupported('zip of filtered iterators')
        for (g1, e1), (g2, e2) in zip(ga, gb):
            yield S.And(g1, g2), (e1, e2)
    elif k == 'fromfniter':
        # std::iter::from_fn(f): f is called until it returns None - a loop in disguise, unrolled up to the bound
        bound = it[2]
        going = S.TRUE
        for _ in range(bound):
            g = live_guard(going)
            if g is S.FALSE:
                break
            r = cx.call(it[1], [], g)
            if r is None:
                going = S.FALSE
                break
            p = r.payloads.get(1, UNDEF)
            has = S.And(g, S.Eq(r.tag, b64(1)))
            if p is not UNDEF and has is not S.FALSE:
                yield has, p[0]
            going = has
        g = live_guard(going)
        if g is not S.FALSE:
            gg = S.And(cx.pc, cx.live, g)
            if gg is not S.FALSE:
                cx.ex.unwinds.append((gg, 'iter::from_fn', -1))
            cx.live = S.And(cx.live, S.Not(g))
    elif k == 'takewhileiter':
        going = S.TRUE
        for g, e in items(cx, it[1], stop):
            g = live_guard(S.And(g, going))
            r = cx.call(it[2], [cx.ref(e)], g)
            if r is None:
                continue
            yield S.And(g, r), e
            going = S.And(going, S.Or(S.Not(g), r))
    elif k == 'skipwhileiter':
        skipping = S.TRUE
        for g, e in items(cx, it[1], stop):
            g = live_guard(g)
            r = cx.call(it[2], [cx.ref(e)], S.And(g, skipping))
            if r is None:
                r = S.FALSE
            skipping = S.And(skipping, S.Or(S.Not(g), r))
            yield S.And(g, S.Not(skipping)), e
    elif k == 'reviter':
        inner = it[1]
        if inner[0] != 'veciter' or not (S.is_const(inner[2]) and S.cval(inner[2]) == 0):
            raise Unsupported('rev of %r' % (inner[0],))
        _, vec, idx, mode = inner
        n = len(vec.cells)
        from .models import select
        for j in range(n):
            g = live_guard(S.Ult(b64(j), vec.length))
            if g is S.FALSE:
                continue
            e = select(vec.cells, S.Sub(S.Sub(vec.length, b64(1)), b64(j)))
            if e is UNDEF:
                continue
            yield g, (cx.ref(e, 'elem') if mode == 'ref' else e)
    else:
        raise Unsupported('iterator kind %r' % (k,))


def _prefix(it):
    """guards of the items are monotone (a prefix of the positions)"""
    k = it[0]
    if k == 'veciter':
        return S.is_const(it[2])
    if k == 'fromfniter':
        return True
    if k in ('mapiter', 'inspectiter', 'derefiter', 'enumiter', 'takeiter', 'reviter', 'takewhileiter'):
        return _prefix(it[1])
    if k == 'zipiter':
        return _prefix(it[1]) and _prefix(it[2])
    return False


def compact(pairs):
    """[(guard, elem)] with arbitrary guards -> VecV holding the guarded elements in order"""
    n = len(pairs)
    cnt = b64(0)
    before = []
    for g, _ in pairs:
        before.append(cnt)
        cnt = S.Ite(g, S.Add(cnt, b64(1)), cnt)
    cells = []
    for j in range(n):
        acc = UNDEF
        for i in reversed(range(j, n)):
            g, e = pairs[i]
            c = S.And(g, S.Eq(before[i], b64(j)))
            if c is S.FALSE:
                continue
            acc = e if acc is UNDEF else merge(c, e, acc)
        cells.append(acc)
    while cells and cells[-1] is UNDEF:
        cells.pop()
    return VecV(cells, cnt)


def register(M):
    R = M.reg
    rd = M.rd

    def deep(st, v):
        while isinstance(v, RefV):
            v = rd(st, v)
        return v

    def as_iter(st, v):
        v = deep(st, v) if isinstance(v, RefV) else v
        if _is_iter(v):
            return v
        if isinstance(v, VecV):
            return ('veciter', v, b64(0), 'val')
        if isinstance(v, tuple) and not (v and isinstance(v[0], str)):
            # a fixed-size array
            return ('veciter', VecV(v, b64(len(v))), b64(0), 'val')
        if isinstance(v, EnumV):
            # Option as an iterator of zero or one elements
            p = v.payloads.get(1, UNDEF)
            if p is UNDEF:
                return ('veciter', VecV((), b64(0)), b64(0), 'val')
            return ('veciter', VecV((p[0],), S.Ite(S.Eq(v.tag, b64(1)), b64(1), b64(0))), b64(0), 'val')
        raise Unsupported('not iterable: %r' % (v,))

    def keys(method, heads=ADAPTORS):
        return '|'.join('<%s as Iterator>::%s' % (h, method) for h in heads.split('|'))

    # ------------------------------------------------------------ IntoIterator on generic / adaptor types
    R('<I as IntoIterator>::into_iter|<T as IntoIterator>::into_iter|<Map as IntoIterator>::into_iter|<Filter as IntoIterator>::into_iter|'
      '<Enumerate as IntoIterator>::into_iter|<Zip as IntoIterator>::into_iter|<Chain as IntoIterator>::into_iter|'
      '<Rev as IntoIterator>::into_iter|<Skip as IntoIterator>::into_iter|<Take as IntoIterator>::into_iter|'
      '<Cloned as IntoIterator>::into_iter|<Copied as IntoIterator>::into_iter|<FilterMap as IntoIterator>::into_iter|'
      '<Inspect as IntoIterator>::into_iter|<Option as IntoIterator>::into_iter',
      lambda ex, fr, c, a, st, pc: (as_iter(st, a[0]), S.TRUE))
    R('<&mut Vec as IntoIterator>::into_iter|slice::iter_mut', lambda ex, fr, c, a, st, pc:
      (_unsupported('mutable iteration'), S.TRUE))

    # ------------------------------------------------------------ adaptors
    def adaptor(kind, nargs):
        def f(ex, fr, c, a, st, pc):
            it = as_iter(st, a[0])
            return (kind, it) + tuple(a[1:1 + nargs]), S.TRUE
        return f
    R(keys('map'), adaptor('mapiter', 1))
    R(keys('filter'), adaptor('filteriter', 1))
    R(keys('filter_map'), adaptor('filtermapiter', 1))
    R(keys('inspect'), adaptor('inspectiter', 1))
    R(keys('enumerate'), adaptor('enumiter', 0))
    R(keys('cloned') + '|' + keys('copied'), adaptor('derefiter', 0))
    R(keys('skip'), adaptor('skipiter', 1))
    R(keys('take_while'), adaptor('takewhileiter', 1))
    R(keys('skip_while'), adaptor('skipwhileiter', 1))
    R('iter::from_fn|sources::from_fn|from_fn::from_fn', lambda ex, fr, c, a, st, pc:
      (('fromfniter', a[0], ex.loop_bound(fr.fn, None)), S.TRUE))
    R('iter::once|sources::once|once::once', lambda ex, fr, c, a, st, pc:
      (('veciter', VecV((a[0],), b64(1)), b64(0), 'val'), S.TRUE))
    R('iter::empty|sources::empty|empty::empty', lambda ex, fr, c, a, st, pc:
      (('veciter', VecV((), b64(0)), b64(0), 'val'), S.TRUE))
    R(keys('rev'), adaptor('reviter', 0))
    R(keys('by_ref'), lambda ex, fr, c, a, st, pc: (_unsupported('Iterator::by_ref'), S.TRUE))

    def take(ex, fr, c, a, st, pc):
        it = as_iter(st, a[0])
        if it[0] == 'veciter' and S.is_const(it[2]) and S.cval(it[2]) == 0:
            return ('veciter', VecV(it[1].cells, S.Umin(it[1].length, a[1])), it[2], it[3]), S.TRUE
        return ('takeiter', it, a[1]), S.TRUE
    R(keys('take'), take)

    def two(kind):
        def f(ex, fr, c, a, st, pc):
            return (kind, as_iter(st, a[0]), as_iter(st, a[1])), S.TRUE
        return f
    R(keys('zip'), two('zipiter'))
    R(keys('chain'), two('chainiter'))

    # ------------------------------------------------------------ consumers
    def for_each(ex, fr, c, a, st, pc):
        cx = Ctx(ex, st, pc)
        for g, e in items(cx, as_iter(st, a[0])):
            cx.call(a[1], [e], g)
        return UNIT, cx.st, cx.live
    R(keys('for_each'), for_each)

    def fold(ex, fr, c, a, st, pc):
        cx = Ctx(ex, st, pc)
        acc = a[1]
        for g, e in items(cx, as_iter(st, a[0])):
            r = cx.call(a[2], [acc, e], g)
            if r is not None:
                acc = merge(g, r, acc) if g is not S.TRUE else r
        return acc, cx.st, cx.live
    R(keys('fold'), fold)

    def try_fold(ex, fr, c, a, st, pc):
        """Iterator::try_fold / try_for_each with an Option- or Result-returning closure: the closure runs element by
        element and the first None / Err stops the pull (later guards are conjoined with 'not stopped')"""
        tail = c.split('try_fold', 1)[-1] if 'try_fold' in c else c.split('try_for_each', 1)[-1]
        foreach = 'try_for_each' in c
        if 'Result<' in tail:
            good = 0
        elif 'Option<' in tail:
            good = 1
        else:
            raise Unsupported('try_fold over a Try type that is neither Option nor Result: %s' % c)
        cx = Ctx(ex, st, pc)
        stop = [S.FALSE]
        acc = UNIT if foreach else a[1]
        cl = a[1] if foreach else a[2]
        broke, resid = S.FALSE, None
        for g, e in items(cx, as_iter(st, deep(st, a[0])), stop):
            r = cx.call(cl, [e] if foreach else [acc, e], g)
            if r is None:
                continue
            if not isinstance(r, EnumV):
                raise Unsupported('try_fold closure result %r' % (r,))
            ok = S.Eq(r.tag, b64(good))
            cont, brk = S.And(g, ok), S.And(g, S.Not(ok))
            p = r.payloads.get(good, UNDEF)
            if not foreach and p is not UNDEF and len(p) and cont is not S.FALSE:
                acc = merge(cont, p[0], acc)
            if brk is not S.FALSE:
                resid = r if resid is None else merge(brk, r, resid)
            broke = S.Or(broke, brk)
            stop[0] = broke
        if isinstance(a[0], RefV):
            M.wr(cx.st, a[0], ('spentiter',))
        final = EnumV(b64(good), {good: (acc,)})
        if resid is not None and broke is not S.FALSE:
            final = merge(broke, resid, final)
        return final, cx.st, cx.live
    R(keys('try_fold') + '|' + keys('try_for_each'), try_fold)

    def collect(ex, fr, c, a, st, pc):
        it = as_iter(st, a[0])
        if 'BTreeMap' in c and it[0] == 'mapiter':
            return M.map_collect(ex, fr, c, a, st, pc)
        import re
        m = re.search(r'collect::<\s*([A-Za-z_:]+)', c)
        head = m.group(1).split('::')[-1] if m else 'Vec'
        if head != 'Vec':
            raise Unsupported('collect into %s' % head)
        cx = Ctx(ex, st, pc)
        pairs = list(items(cx, it))
        if _prefix(it):
            n = b64(0)
            for g, _ in pairs:
                n = S.Add(n, S.B2BV(g, 64))
            return VecV([e for _, e in pairs], n), cx.st, cx.live
        return compact(pairs), cx.st, cx.live
    R(keys('collect'), collect)

    def count(ex, fr, c, a, st, pc):
        cx = Ctx(ex, st, pc)
        n = b64(0)
        for g, e in items(cx, as_iter(st, a[0])):
            n = S.Add(n, S.B2BV(g, 64))
        return n, cx.st, cx.live
    R(keys('count'), count)

    def exact_len(ex, fr, c, a, st, pc):
        it = deep(st, a[0])
        if it[0] == 'veciter':
            return S.Sub(it[1].length, S.Umin(it[2], it[1].length)), S.TRUE
        raise Unsupported('ExactSizeIterator::len on %r' % (it[0],))
    R('<I as ExactSizeIterator>::len|<Iter as ExactSizeIterator>::len|<IntoIter as ExactSizeIterator>::len', exact_len)

    def summ(ex, fr, c, a, st, pc):
        cx = Ctx(ex, st, pc)
        acc = None
        for g, v in items(cx, as_iter(st, a[0])):
            v = deep(cx.st, v)
            if not isinstance(v, S.Term):
                raise Unsupported('sum of %r' % (v,))
            if acc is None:
                acc = S.bv(0, v.sort)
            ovf = S.And(g, S.AddOvf(acc, v))
            gg = S.And(pc, cx.live, ovf)
            if gg is not S.FALSE:
                ex.panics.append((gg, 'attempt to add with overflow (Iterator::sum)', fr.fn.name, -1))
            cx.live = S.And(cx.live, S.Not(ovf))
            acc = S.Ite(g, S.Add(acc, v), acc)
        if acc is None:
            import re
            m = re.search(r'sum::<([ui](?:8|16|32|64|128|size))>', c)
            from . import mir as MIR
            acc = S.bv(0, MIR.INT_WIDTH[m.group(1)] if m else 64)
        return acc, cx.st, cx.live
    R(keys('sum'), summ)

    def any_all(which):
        def f(ex, fr, c, a, st, pc):
            it = deep(st, a[0])
            cx = Ctx(ex, st, pc)
            stop = [S.FALSE]
            acc = S.FALSE if which == 'any' else S.TRUE
            for g, e in items(cx, as_iter(st, it), stop):
                r = cx.call(a[1], [e], g)
                if r is None:
                    continue
                if which == 'any':
                    acc = S.Or(acc, S.And(g, r))
                    stop[0] = acc
                else:
                    acc = S.And(acc, S.Or(S.Not(g), r))
                    stop[0] = S.Not(acc)
            if isinstance(a[0], RefV):
                # the iterator is consumed up to the deciding element; we do not track the remainder
                M.wr(cx.st, a[0], ('spentiter',))
            return acc, cx.st, cx.live
        return f
    R(keys('any'), any_all('any'))
    R(keys('all'), any_all('all'))

    def find_like(which):
        def f(ex, fr, c, a, st, pc):
            it = deep(st, a[0])
            cx = Ctx(ex, st, pc)
            stop = [S.FALSE]
            found = S.FALSE
            val = UNDEF
            pos = b64(0)
            idx = b64(0)
            for g, e in items(cx, as_iter(st, it), stop):
                if which == 'find':
                    r = cx.call(a[1], [cx.ref(e)], g)
                elif which == 'position':
                    r = cx.call(a[1], [e], g)
                else:  # find_map
                    r = cx.call(a[1], [e], g)
                if r is None:
                    continue
                if which == 'find_map':
                    hit = S.And(g, S.Eq(r.tag, b64(1)), S.Not(found))
                    p = r.payloads.get(1, UNDEF)
                    v = p[0] if p is not UNDEF else UNDEF
                else:
                    hit = S.And(g, r, S.Not(found))
                    v = e
                if v is not UNDEF and hit is not S.FALSE:
                    val = v if val is UNDEF else merge(hit, v, val)
                pos = S.Ite(hit, idx, pos)
                idx = S.Ite(g, S.Add(idx, b64(1)), idx)
                found = S.Or(found, hit)
                stop[0] = found
            if isinstance(a[0], RefV):
                M.wr(cx.st, a[0], ('spentiter',))
            if which == 'position':
                return option(found, pos), cx.st, cx.live
            if val is UNDEF:
                return none(), cx.st, cx.live
            return option(found, val), cx.st, cx.live
        return f
    R(keys('find'), find_like('find'))
    R(keys('position'), find_like('position'))
    R(keys('find_map'), find_like('find_map'))

    def last(ex, fr, c, a, st, pc):
        cx = Ctx(ex, st, pc)
        has, val = S.FALSE, UNDEF
        for g, e in items(cx, as_iter(st, a[0])):
            val = e if val is UNDEF else merge(g, e, val)
            has = S.Or(has, g)
        return (none() if val is UNDEF else option(has, val)), cx.st, cx.live
    R(keys('last'), last)

    def minmax(which, by_key):
        def f(ex, fr, c, a, st, pc):
            cx = Ctx(ex, st, pc)
            has, val, key = S.FALSE, UNDEF, None
            for g, e in items(cx, as_iter(st, a[0])):
                if by_key:
                    k = cx.call(a[1], [cx.ref(e)], g)
                    if k is None:
                        continue
                else:
                    k = deep(cx.st, e)
                kk = M._flat_key(k)
                if val is UNDEF:
                    has, val, key = g, e, kk
                    continue
                if which == 'max':   # the last maximum wins
                    better = S.Or(S.Not(has), S.Not(M._lex_less(kk, key)))
                else:                # the first minimum wins
                    better = S.Or(S.Not(has), M._lex_less(kk, key))
                take_it = S.And(g, better)
                val = merge(take_it, e, val)
                key = [S.Ite(take_it, x, y) for x, y in zip(kk, key)]
                has = S.Or(has, g)
            return (none() if val is UNDEF else option(has, val)), cx.st, cx.live
        return f
    R(keys('max'), minmax('max', False))
    R(keys('min'), minmax('min', False))
    R(keys('max_by_key'), minmax('max', True))
    R(keys('min_by_key'), minmax('min', True))

    def nxt(ex, fr, c, a, st, pc):
        it = rd(st, a[0])
        if it[0] == 'veciter':
            return M.iter_next(ex, fr, c, a, st, pc)
        # composite iterator driven by hand: materialise it (closures run for all elements now)
        cx = Ctx(ex, st, pc)
        before = dict(st.mem)
        pairs = list(items(cx, it))
        for k_, v_ in cx.st.mem.items():
            if k_ in before and before[k_] is not v_ and not (isinstance(k_, tuple) and k_ and k_[0] in ('H', 'T')):
                pass
        vec = VecV([e for _, e in pairs], S.Sum([S.B2BV(g, 64) for g, _ in pairs], 64)) if _prefix(it) else compact(pairs)
        M.wr(cx.st, a[0], ('veciter', vec, b64(0), 'val'))
        r = M.iter_next(ex, fr, c, a, cx.st, pc)
        return r[0], r[1], S.And(cx.live, r[2])
    R(keys('next', 'Map|Filter|FilterMap|Inspect|Enumerate|Zip|Chain|Cloned|Copied|Skip|Rev|I|IntoValues|FromFn|TakeWhile|SkipWhile|Once|Empty'), nxt)

    # ------------------------------------------------------------ Vec / slice helpers
    def vec_iter_ref(ex, fr, c, a, st, pc):
        return ('veciter', deep(st, a[0]), b64(0), 'ref'), S.TRUE
    R('Vec::iter', vec_iter_ref)

    def vec_get(ex, fr, c, a, st, pc):
        from .models import select
        v = deep(st, a[0])
        idx = a[1]
        if not isinstance(v, VecV) or not isinstance(idx, S.Term):
            raise Unsupported('get on %r' % (v,))
        e = select(v.cells, idx)
        if e is UNDEF:
            return none(), S.TRUE
        cx = Ctx(ex, st, pc)
        return option(S.Ult(idx, v.length), cx.ref(e, 'elem')), S.TRUE
    R('slice::get|Vec::get', vec_get)

    def as_slice(ex, fr, c, a, st, pc):
        return a[0], S.TRUE
    R('Vec::as_slice|Vec::as_mut_slice|<Vec as AsRef>::as_ref|<Vec as Borrow>::borrow', as_slice)

    def split_first_last(which):
        def f(ex, fr, c, a, st, pc):
            from .models import select
            v = deep(st, a[0])
            if not isinstance(v, VecV):
                raise Unsupported('%s on %r' % (which, v))
            cx = Ctx(ex, st, pc)
            has = S.Not(S.Eq(v.length, b64(0)))
            if not v.cells:
                return none(), S.TRUE
            n1 = S.Sub(v.length, b64(1))
            if which == 'split_first':
                e = v.cells[0]
                rest = VecV(v.cells[1:], n1)
            else:
                e = select(v.cells, n1)
                rest = VecV(v.cells, n1)
            if e is UNDEF:
                return none(), S.TRUE
            return option(has, (cx.ref(e, 'elem'), cx.ref(rest, 'rest'))), cx.st, S.TRUE
        return f
    R('slice::split_first', split_first_last('split_first'))
    R('slice::split_last', split_first_last('split_last'))

    def vec_from_iter(ex, fr, c, a, st, pc):
        return collect(ex, fr, 'collect::<Vec>', a, st, pc)
    R('<Vec as FromIterator>::from_iter', vec_from_iter)

    def vec_extend(ex, fr, c, a, st, pc):
        v = rd(st, a[0])
        cx = Ctx(ex, st, pc)
        pairs = list(items(cx, as_iter(st, a[1])))
        if not S.is_const(v.length):
            head = [(S.Ult(b64(i), v.length), e) for i, e in enumerate(v.cells) if e is not UNDEF]
            out = compact(head + pairs)
        else:
            k = S.cval(v.length)
            tail = compact(pairs) if not _prefix(as_iter(st, a[1])) else VecV([e for _, e in pairs],
                                                                               S.Sum([S.B2BV(g, 64) for g, _ in pairs], 64))
            out = VecV(tuple(v.cells[:k]) + tuple(tail.cells), S.Add(b64(k), tail.length))
        M.wr(cx.st, a[0], out)
        return UNIT, cx.st, cx.live
    R('<Vec as Extend>::extend', vec_extend)

    def vec_retain(ex, fr, c, a, st, pc):
        v = rd(st, a[0])
        cx = Ctx(ex, st, pc)
        pairs = []
        for i, e in enumerate(v.cells):
            if e is UNDEF:
                continue
            g = S.Ult(b64(i), v.length)
            r = cx.call(a[1], [cx.ref(e)], g)
            if r is not None:
                pairs.append((S.And(g, r), e))
        M.wr(cx.st, a[0], compact(pairs))
        return UNIT, cx.st, cx.live
    R('Vec::retain', vec_retain)

    def vec_insert(ex, fr, c, a, st, pc):
        v = rd(st, a[0])
        if not (S.is_const(a[1]) and S.is_const(v.length)):
            raise Unsupported('Vec::insert with symbolic index / length')
        i, n = S.cval(a[1]), S.cval(v.length)
        if i > n:
            ex.panics.append((pc, 'insertion index out of bounds', fr.fn.name, -1))
            return UNIT, None, S.FALSE
        M.wr(st, a[0], VecV(tuple(v.cells[:i]) + (a[2],) + tuple(v.cells[i:n]), b64(n + 1)))
        return UNIT, S.TRUE
    R('Vec::insert', vec_insert)

    def vec_reverse(ex, fr, c, a, st, pc):
        from .models import select
        v = deep(st, a[0])
        cells = [select(v.cells, S.Sub(S.Sub(v.length, b64(1)), b64(j))) for j in range(len(v.cells))]
        tgt = a[0]
        while isinstance(rd(st, tgt), RefV):
            tgt = rd(st, tgt)
        M.wr(st, tgt, VecV(cells, v.length))
        return UNIT, S.TRUE
    R('slice::reverse|Vec::reverse', vec_reverse)

    def vec_truncate(ex, fr, c, a, st, pc):
        v = rd(st, a[0])
        M.wr(st, a[0], VecV(v.cells, S.Umin(v.length, a[1])))
        return UNIT, S.TRUE
    R('Vec::truncate', vec_truncate)

    def sort_by(ex, fr, c, a, st, pc):
        """stable sort with a comparator closure: bubble network of compare-exchange steps, each calling the real
        comparator on the two current neighbours and swapping exactly when it answers Greater; positions at or
        beyond the (symbolic) length never move.  Bound: the Vec's cell capacity."""
        v = rd(st, a[0])
        if isinstance(v, RefV):
            tgt = v
            v = rd(st, v)
        else:
            tgt = a[0]
        if not isinstance(v, VecV):
            raise Unsupported('sort_by on %r' % (v,))
        cells = list(v.cells)
        n = len(cells)
        if n > 6:
            raise Unsupported('sort_by over more than 6 cells')
        cx = Ctx(ex, st, pc)
        for rnd in range(n):
            for i in range(n - 1 - rnd):
                if cells[i] is UNDEF or cells[i + 1] is UNDEF:
                    continue
                g = S.Ult(b64(i + 1), v.length)
                if g is S.FALSE:
                    continue
                o = cx.call(a[1], [cx.ref(cells[i], 'sortl'), cx.ref(cells[i + 1], 'sortr')], g)
                if o is None:
                    continue
                if not isinstance(o, EnumV):
                    raise Unsupported('sort_by comparator result %r' % (o,))
                sw = S.And(g, S.Eq(o.tag, S.bv(1, o.tag.sort)))
                if sw is S.FALSE:
                    continue
                x, y = cells[i], cells[i + 1]
                cells[i], cells[i + 1] = merge(sw, y, x), merge(sw, x, y)
        M.wr(cx.st, tgt, VecV(tuple(cells), v.length))
        return UNIT, cx.st, cx.live
    R('slice::sort_by|slice::sort_unstable_by', sort_by)
    R('slice::sort_unstable_by_key|slice::sort_by_cached_key', M.sort_by_key)

    # ------------------------------------------------------------ Option / Result / bool combinators
    def tag_is(o, i):
        if not isinstance(o, EnumV):
            raise Unsupported('Option / Result method on a value that is not defined here: %r' % (o,))
        return S.Eq(o.tag, b64(i))

    def payload(o, i):
        p = o.payloads.get(i, UNDEF)
        return p[0] if p is not UNDEF and len(p) else UNDEF

    def opt_closure(kind, is_res):
        """Option / Result methods that call a closure on the Some / Ok (or None / Err) payload"""
        def f(ex, fr, c, a, st, pc):
            o = a[0]
            if isinstance(o, RefV):
                o = deep(st, o)
            cx = Ctx(ex, st, pc)
            good = 0 if is_res else 1      # Ok = 0 / Some = 1
            bad = 1 - good
            hit = tag_is(o, good)
            x = payload(o, good)
            if kind == 'inspect':
                if x is not UNDEF:
                    cx.call(a[1], [cx.ref(x)], hit)
                return a[0], cx.st, cx.live
            if kind == 'inspect_err':
                y = payload(o, bad)
                if y is not UNDEF:
                    cx.call(a[1], [cx.ref(y)], tag_is(o, bad))
                return a[0], cx.st, cx.live
            if kind in ('and_then',):
                r = cx.call(a[1], [x], hit) if x is not UNDEF else None
                if r is None:
                    return EnumV(o.tag, {bad: o.payloads.get(bad, ())}), cx.st, cx.live
                pl = dict(r.payloads)
                if bad in o.payloads and o.payloads[bad] is not UNDEF:
                    pl[bad] = merge(hit, pl[bad], o.payloads[bad]) if pl.get(bad, UNDEF) is not UNDEF else o.payloads[bad]
                return EnumV(S.Ite(hit, r.tag, o.tag), pl), cx.st, cx.live
            if kind == 'filter':
                r = cx.call(a[1], [cx.ref(x)], hit) if x is not UNDEF else None
                if r is None:
                    return none(), cx.st, cx.live
                return EnumV(S.Ite(S.And(hit, r), b64(1), b64(0)), {0: (), 1: (x,)}), cx.st, cx.live
            if kind in ('is_some_and', 'is_ok_and'):
                r = cx.call(a[1], [x], hit) if x is not UNDEF else None
                return (S.FALSE if r is None else S.And(hit, r)), cx.st, cx.live
            if kind == 'is_none_or':
                r = cx.call(a[1], [x], hit) if x is not UNDEF else None
                return (S.Not(hit) if r is None else S.Or(S.Not(hit), r)), cx.st, cx.live
            if kind == 'map_or':
                r = cx.call(a[2], [x], hit) if x is not UNDEF else None
                return (a[1] if r is None else merge(hit, r, a[1])), cx.st, cx.live
            if kind == 'map_or_else':
                r = cx.call(a[2], [x], hit) if x is not UNDEF else None
                y = payload(o, bad)
                d = cx.call(a[1], ([y] if is_res else []), S.Not(hit))
                if r is None:
                    return d, cx.st, cx.live
                if d is None:
                    return r, cx.st, cx.live
                return merge(hit, r, d), cx.st, cx.live
            if kind == 'map':   # Result::map (Option::map is in models.py)
                r = cx.call(a[1], [x], hit) if x is not UNDEF else None
                pl = {bad: o.payloads.get(bad, ())}
                if r is not None:
                    pl[good] = (r,)
                return EnumV(o.tag, pl), cx.st, cx.live
            if kind == 'map_err':
                y = payload(o, bad)
                r = cx.call(a[1], [y], tag_is(o, bad)) if y is not UNDEF else None
                pl = {good: o.payloads.get(good, ())}
                if r is not None:
                    pl[bad] = (r,)
                return EnumV(o.tag, pl), cx.st, cx.live
            if kind == 'ok_or_else':
                d = cx.call(a[1], [], S.Not(hit))
                return EnumV(S.Ite(hit, b64(0), b64(1)), {0: (x,) if x is not UNDEF else UNDEF,
                                                            1: (d,) if d is not None else UNDEF}), cx.st, cx.live
            if kind == 'unwrap_or_else':   # Result::unwrap_or_else(|e| ..)
                y = payload(o, bad)
                d = cx.call(a[1], [y], S.Not(hit))
                if d is None:
                    return x, cx.st, S.And(cx.live, hit)
                return (d if x is UNDEF else merge(hit, x, d)), cx.st, cx.live
            raise Unsupported(kind)
        return f
    for kind in ('inspect', 'and_then', 'filter', 'is_some_and', 'is_none_or', 'map_or', 'map_or_else', 'ok_or_else'):
        R('Option::' + kind, opt_closure(kind, False))
    for kind in ('inspect', 'inspect_err', 'and_then', 'is_ok_and', 'map_or', 'map_or_else', 'map', 'map_err', 'unwrap_or_else'):
        R('Result::' + kind, opt_closure(kind, True))

    def res_simple(kind):
        def f(ex, fr, c, a, st, pc):
            o = a[0]
            if isinstance(o, RefV):
                o = deep(st, o)
            if kind == 'is_ok':
                return tag_is(o, 0), S.TRUE
            if kind == 'is_err':
                return tag_is(o, 1), S.TRUE
            if kind == 'ok':
                x = payload(o, 0)
                return (none() if x is UNDEF else option(tag_is(o, 0), x)), S.TRUE
            if kind == 'err':
                x = payload(o, 1)
                return (none() if x is UNDEF else option(tag_is(o, 1), x)), S.TRUE
            if kind == 'unwrap_or':
                x = payload(o, 0)
                return (a[1] if x is UNDEF else merge(tag_is(o, 0), x, a[1])), S.TRUE
            raise Unsupported(kind)
        return f
    for kind in ('is_ok', 'is_err', 'ok', 'err', 'unwrap_or'):
        R('Result::' + kind, res_simple(kind))

    def opt_simple(kind):
        def f(ex, fr, c, a, st, pc):
            if kind == 'then_some':
                return option(a[0], a[1]), S.TRUE
            o = a[0]
            if isinstance(o, RefV):
                o = deep(st, o)
            hit = tag_is(o, 1)
            x = payload(o, 1)
            if kind == 'or':
                b = a[1]
                pb = payload(b, 1)
                v = pb if x is UNDEF else (x if pb is UNDEF else merge(hit, x, pb))
                return EnumV(S.Ite(hit, o.tag, b.tag), {0: (), 1: (v,) if v is not UNDEF else UNDEF}), S.TRUE
            if kind == 'and':
                b = a[1]
                return EnumV(S.Ite(hit, b.tag, b64(0)), dict(b.payloads, **{0: ()})), S.TRUE
            if kind == 'xor':
                raise Unsupported('Option::xor')
            if kind == 'zip':
                b = a[1]
                y = payload(b, 1)
                if x is UNDEF or y is UNDEF:
                    return none(), S.TRUE
                return option(S.And(hit, tag_is(b, 1)), (x, y)), S.TRUE
            if kind == 'then_some':
                return option(a[0], a[1]), S.TRUE
            raise Unsupported(kind)
        return f
    for kind in ('or', 'and', 'zip'):
        R('Option::' + kind, opt_simple(kind))
    R('bool::then_some', opt_simple('then_some'))

    def bool_then(ex, fr, c, a, st, pc):
        cx = Ctx(ex, st, pc)
        r = cx.call(a[1], [], a[0])
        return (none() if r is None else option(a[0], r)), cx.st, cx.live
    R('bool::then', bool_then)

    def opt_replace(ex, fr, c, a, st, pc):
        old = rd(st, a[0])
        M.wr(st, a[0], some(a[1]))
        return old, S.TRUE
    R('Option::replace', opt_replace)

    def opt_insert(ex, fr, c, a, st, pc):
        M.wr(st, a[0], some(a[1]))
        return RefV(a[0].root, a[0].path + (('v', 1), 0)), S.TRUE
    R('Option::insert', opt_insert)

    def opt_get_or_insert_with(ex, fr, c, a, st, pc):
        o = rd(st, a[0])
        hit = tag_is(o, 1)
        x = payload(o, 1)
        cx = Ctx(ex, st, pc)
        with_fn = 'get_or_insert_with' in c
        d = cx.call(a[1], [], S.Not(hit)) if with_fn else a[1]
        if d is None:
            v = x
            cx.live = S.And(cx.live, hit)
        else:
            v = d if x is UNDEF else merge(hit, x, d)
        M.wr(cx.st, a[0], some(v))
        return RefV(a[0].root, a[0].path + (('v', 1), 0)), cx.st, cx.live
    R('Option::get_or_insert_with|Option::get_or_insert', opt_get_or_insert_with)

    # ------------------------------------------------------------ integer comparison
    def ordering(lt, eq):
        # Ordering: Less = -1, Equal = 0, Greater = 1 as i8 discriminant
        return EnumV(S.Ite(lt, b64(255), S.Ite(eq, b64(0), b64(1))), {255: (), 0: (), 1: ()})

    def int_cmp(signed):
        def f(ex, fr, c, a, st, pc):
            x, y = deep(st, a[0]), deep(st, a[1])
            if not (isinstance(x, S.Term) and isinstance(y, S.Term)):
                raise Unsupported('cmp of %r' % (x,))
            return ordering(S.Slt(x, y) if signed else S.Ult(x, y), S.Eq(x, y)), S.TRUE
        return f

    def int_pcmp(signed):
        def f(ex, fr, c, a, st, pc):
            r = int_cmp(signed)(ex, fr, c, a, st, pc)
            return some(r[0]), S.TRUE
        return f
    for t in ('u8', 'u16', 'u32', 'u64', 'u128', 'usize'):
        R('<%s as Ord>::cmp' % t, int_cmp(False))
        R('<%s as PartialOrd>::partial_cmp' % t, int_pcmp(False))
        R('<&%s as PartialEq>::eq' % t, lambda ex, fr, c, a, st, pc: (S.Eq(deep(st, a[0]), deep(st, a[1])), S.TRUE))
        R('<%s as PartialEq>::ne' % t, lambda ex, fr, c, a, st, pc: (S.Not(S.Eq(deep(st, a[0]), deep(st, a[1]))), S.TRUE))
        R('<%s as Ord>::clamp' % t, lambda ex, fr, c, a, st, pc: (S.Umin(S.Umax(a[0], a[1]), a[2]), S.TRUE))
        for nm, fn_ in (('lt', S.Ult), ('le', S.Ule), ('gt', S.Ugt), ('ge', S.Uge)):
            R('<%s as PartialOrd>::%s|<&%s as PartialOrd>::%s' % (t, nm, t, nm),
              (lambda fn_: lambda ex, fr, c, a, st, pc: (fn_(deep(st, a[0]), deep(st, a[1])), S.TRUE))(fn_))
    for t in ('i8', 'i16', 'i32', 'i64', 'i128', 'isize'):
        R('<%s as Ord>::cmp' % t, int_cmp(True))
        R('<%s as PartialOrd>::partial_cmp' % t, int_pcmp(True))

    def ord_test(kind):
        def f(ex, fr, c, a, st, pc):
            o = a[0]
            t = o.tag
            less, eq, gr = S.Eq(t, b64(255)), S.Eq(t, b64(0)), S.Eq(t, b64(1))
            return {'is_lt': less, 'is_le': S.Or(less, eq), 'is_gt': gr, 'is_ge': S.Or(gr, eq), 'is_eq': eq,
                    'is_ne': S.Not(eq)}[kind], S.TRUE
        return f
    for kind in ('is_lt', 'is_le', 'is_gt', 'is_ge', 'is_eq', 'is_ne'):
        R('Ordering::' + kind, ord_test(kind))

    def ord_reverse(ex, fr, c, a, st, pc):
        t = a[0].tag
        return EnumV(S.Ite(S.Eq(t, b64(0)), b64(0), S.Ite(S.Eq(t, b64(1)), b64(255), b64(1))), a[0].payloads), S.TRUE
    R('Ordering::reverse', ord_reverse)
    R('<Ordering as PartialEq>::eq', lambda ex, fr, c, a, st, pc: (S.Eq(deep(st, a[0]).tag, deep(st, a[1]).tag), S.TRUE))
    R('<Ordering as PartialEq>::ne', lambda ex, fr, c, a, st, pc: (S.Not(S.Eq(deep(st, a[0]).tag, deep(st, a[1]).tag)), S.TRUE))

    # ------------------------------------------------------------ small integer helpers
    R('num::is_power_of_two', lambda ex, fr, c, a, st, pc: (_unsupported('is_power_of_two'), S.TRUE))

    def ovf_arith(op):
        def f(ex, fr, c, a, st, pc):
            x, y = a
            if op == 'add':
                return (S.Add(x, y), S.AddOvf(x, y)), S.TRUE
            if op == 'sub':
                return (S.Sub(x, y), S.Ult(x, y)), S.TRUE
            raise Unsupported(op)
        return f
    R('num::overflowing_add', ovf_arith('add'))
    R('num::overflowing_sub', ovf_arith('sub'))

    def fn_call(ex, fr, c, a, st, pc):
        args = a[1]
        if not isinstance(args, tuple):
            raise Unsupported('Fn::call argument pack %r' % (args,))
        cl = a[0]
        while isinstance(cl, RefV):
            cl = st.mem.get(cl.root, UNDEF) if not cl.path else rd(st, cl)
        if cl is UNDEF:
            # a closure without captures is zero-sized: MIR never assigns the variable that holds it
            import re
            m = re.match(r'^<(?:&mut |&)?(\{closure@[^}]*\}) as', c.strip())
            if not m:
                raise Unsupported('call of an undefined callable in %s' % c)
            cl = ('closure', m.group(1))
        return ex.call_closure(cl, list(args), st, pc)
    R('<closure as Fn>::call|<closure as FnMut>::call_mut|<closure as FnOnce>::call_once|'
      '<&closure as Fn>::call|<&closure as FnMut>::call_mut|<&closure as FnOnce>::call_once|'
      '<&mut closure as FnMut>::call_mut|<&mut closure as FnOnce>::call_once|'
      '<F as Fn>::call|<F as FnMut>::call_mut|<F as FnOnce>::call_once|<impl Fn as Fn>::call|<impl FnMut as FnMut>::call_mut|'
      '<impl FnOnce as FnOnce>::call_once|<&F as Fn>::call|<&mut F as FnMut>::call_mut', fn_call)

    R('NonZero::new', lambda ex, fr, c, a, st, pc: (option(S.Not(S.Eq(a[0], S.bv(0, a[0].sort))), a[0]), S.TRUE))
    R('NonZero::get', lambda ex, fr, c, a, st, pc: (a[0], S.TRUE))

    def arc_default(ex, fr, c, a, st, pc):
        import re
        m = re.match(r'^<(?:std::sync::|alloc::sync::)?(?:Arc|Box)<(.*)> as (?:std::default::)?Default>::default$', c.strip())
        if not m:
            raise Unsupported('Default of %s' % c)
        inner = m.group(1)
        fn = ex.resolve('<%s as Default>::default' % inner) or ex.resolve('<%s as std::default::Default>::default' % inner)
        if fn is None:
            raise Unsupported('no Default impl in the crate for %s' % inner)
        return ex.call_fn(fn, [], st, pc)
    R('<Arc as Default>::default|<Box as Default>::default', arc_default)
    R('<Vec as Default>::default', lambda ex, fr, c, a, st, pc: (VecV((), b64(0)), S.TRUE))
    for t, w in (('u8', 8), ('u16', 16), ('u32', 32), ('u64', 64), ('usize', 64), ('u128', 128)):
        R('<%s as Default>::default' % t, (lambda w: lambda ex, fr, c, a, st, pc: (S.bv(0, w), S.TRUE))(w))
    R('<bool as Default>::default', lambda ex, fr, c, a, st, pc: (S.FALSE, S.TRUE))
    R('<Option as Default>::default', lambda ex, fr, c, a, st, pc: (none(), S.TRUE))

    R('mem::take', lambda ex, fr, c, a, st, pc: _mem_take(M, st, a, c))
    R('mem::replace', lambda ex, fr, c, a, st, pc: _mem_replace(M, st, a))
    R('mem::swap', lambda ex, fr, c, a, st, pc: _mem_swap(M, st, a))


def _unsupported(what):
    raise Unsupported(what)


def _mem_take(M, st, a, c):
    old = M.rd(st, a[0])
    if isinstance(old, VecV):
        M.wr(st, a[0], VecV((), S.bv(0, 64)))
    elif isinstance(old, EnumV) and set(old.payloads) <= {0, 1} and ('Option' in c):
        M.wr(st, a[0], none())
    elif isinstance(old, S.Term):
        M.wr(st, a[0], S.bv(0, old.sort) if old.sort != S.B else S.FALSE)
    else:
        raise Unsupported('mem::take of %r' % (old,))
    return old, S.TRUE


def _mem_replace(M, st, a):
    old = M.rd(st, a[0])
    M.wr(st, a[0], a[1])
    return old, S.TRUE


def _mem_swap(M, st, a):
    x, y = M.rd(st, a[0]), M.rd(st, a[1])
    M.wr(st, a[0], y)
    M.wr(st, a[1], x)
    return UNIT, S.TRUE
