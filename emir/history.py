"""Single-threaded history scenarios on one PriceLevel, executed through the real MIR.

A `Hist` owns the symbolic level, a transaction-id generator and the list of steps executed so
far.  Every API call goes through Executor.call on the crate's own functions.  Observations
read the level through its public accessors (also MIR) and, for the set of resting orders, the
entries of the order map (what `iter_orders` lists; `iter_orders` itself is executed where a
check needs the listing order).
"""
import json, uuid
from . import sym as S
from .values import UNDEF, UNIT, EnumV, RefV, VecV, merge, enum_const, concretize, Unsupported
from .exec import State
from .scenario import OrderView, sym_order, const_order_id, Inputs

UPDATE_KINDS = ['UpdatePrice', 'UpdateQuantity', 'UpdatePriceAndQuantity', 'Cancel', 'Replace']
PRICE_BITS = int(__import__('os').environ.get('EMIR_PRICE_BITS', '2'))
TAKER_ID = 0x63
ABSENT_ID = 0x77



def match_roles(fn):
    """which variables of match_order play the roles the inductive cubes need - found by position (parameters), type
    (the MatchResult under construction, the list of set-aside makers) and data flow (the remaining quantity: the u64
    that is initialised before the loop and rewritten inside it), so that renaming a local does not matter.
    Returns {role: debug name}; roles that cannot be identified fall back to the names the code has today."""
    fn.parse()
    if hasattr(fn, '_roles'):
        return fn._roles
    inv = {idx: name for name, idx in fn.debug_names.items()}
    plocals = [l for l, _ in fn.params]
    roles = {}
    for role, l in zip(('self', 'q', 'taker', 'gen'), plocals):
        if l in inv:
            roles[role] = inv[l]
    res, sa, u64s = [], [], []
    for name, idx in fn.debug_names.items():
        if idx in plocals:
            continue
        ty = (fn.local_ty.get(idx) or '').strip()
        if ty.startswith('&'):
            continue
        if ty.split('<')[0].split('::')[-1] == 'MatchResult':
            res.append(name)
        elif ty.split('<')[0].split('::')[-1] == 'Vec' and 'OrderType' in ty and 'Arc' in ty:
            sa.append(name)
        elif ty == 'u64':
            u64s.append((name, idx))
    if len(res) == 1:
        roles['result'] = res[0]
    if len(sa) == 1:
        roles['set_aside'] = sa[0]
    inloop = set()
    for body in fn.loops().values():
        inloop |= set(body)

    def written(blocks):
        w = set()
        for b in blocks:
            blk = fn.blocks[b]
            for stt in blk[0]:
                if stt[0] == 'assign':
                    w.add(stt[1].local)
            if blk[1] and blk[1][0] == 'call':
                w.add(blk[1][1].local)
        return w
    w_in = written(inloop)
    w_out = written([b for b in fn.blocks if b not in inloop and b not in fn.cleanup])
    cand = [name for name, idx in u64s if idx in w_in and idx in w_out]
    if len(cand) == 1:
        roles['remaining'] = cand[0]
    for role, default in (('self', 'self'), ('q', 'incoming_quantity'), ('taker', 'taker_order_id'),
                          ('gen', 'transaction_id_generator'), ('result', 'result'), ('remaining', 'remaining'),
                          ('set_aside', 'set_aside')):
        if role not in roles and default in fn.debug_names:
            roles[role] = default
    fn._roles = roles
    return roles


class Hist(object):
    def __init__(self, ex, L, models, inp, price=None):
        self.ex = ex
        self.L = L
        self.models = models
        self.inp = inp
        self.st = State()
        self.live = S.TRUE
        self.P = price if price is not None else S.ZExt(inp.var('P', PRICE_BITS), 64)
        lvl, self.st, l = ex.call('PriceLevel::new', [self.P], self.st)
        self.root = ex.alloc(self.st, lvl, 'level')
        self.lref = RefV(self.root, ())
        self.ns = inp.var('ns', 128)
        gen, self.st, l = ex.call('UuidGenerator::new', [self.ns], self.st)
        self.groot = ex.alloc(self.st, gen, 'gen')
        self.gref = RefV(self.groot, ())
        self.steps = []
        self.i_orders = L.field_index('PriceLevel', 'orders')
        self.i_map = L.field_index('OrderQueue', 'orders')
        self.i_q = L.field_index('OrderQueue', 'order_ids')
        self.i_stats = L.field_index('PriceLevel', 'stats')

    # ---- bookkeeping
    def _pc(self):
        return self.live

    def _did(self, live):
        self.live = S.And(self.live, live)

    # ---- operations (real code)
    def add(self, order):
        pre = self.resting()
        before = self.level_value()
        r, self.st, l = self.ex.call('PriceLevel::add_order', [self.lref, order], self.st, self._pc())
        self._did(l)
        rec = {'op': 'add', 'order': order, 'ret': r, 'pre': pre, 'post': self.resting(), 'agg': self.aggregates(),
               'before': before, 'after': self.level_value()}
        self.steps.append(rec)
        return rec

    def match(self, q, taker=None, cut_after=None):
        """cut_after=k: execute at most k loop iterations and capture the state at the loop head where
        iteration k+1 would start (a loop cut point for inductive reasoning) instead of unrolling on"""
        taker = taker if taker is not None else const_order_id(TAKER_ID)
        pre = self.resting()
        pre_level = self.level_value()
        cuts = []
        if cut_after is not None:
            fn = self.ex.resolve('PriceLevel::match_order').parse()
            head = fn.loop_containing_call('match_against', self.ex.crate)
            if head is None:
                head = fn.loop_containing_call('::pop', self.ex.crate)
            if head is None:
                raise Unsupported('match_order: no loop around match_against found')
            saved = (dict(self.ex.block_bounds), self.ex.capture_cuts)
            self.ex.block_bounds = dict(self.ex.block_bounds)
            self.ex.block_bounds[(fn.name, head)] = cut_after
            self.ex.capture_cuts = True
            ncut = len(self.ex.cuts)
            nunw = len(self.ex.unwinds)
        r, st2, l = self.ex.call('PriceLevel::match_order', [self.lref, q, taker, self.gref], self.st.copy(),
                                 self._pc())
        if cut_after is not None:
            self.ex.block_bounds, self.ex.capture_cuts = saved
            for g, cst, fr, b in self.ex.cuts[ncut:]:
                if not fr.fn.name.endswith('::match_order'):
                    continue
                cuts.append(self._cut_record(g, cst, fr, b))
            # the cut is handled by induction: drop its unwinding events (those of match_order only)
            keep = self.ex.unwinds[:nunw] + [u for u in self.ex.unwinds[nunw:]
                                             if not (u[1].endswith('::match_order') and u[2] == head)]
            self.ex.unwinds[:] = keep
        if st2 is None:
            # every path was cut (no path returns within the bound)
            rec = {'op': 'match', 'q': q, 'taker': taker, 'ret': None, 'pre': pre, 'post': [], 'agg': None,
                   'live': S.FALSE, 'cuts': cuts, 'pre_level': pre_level}
            self.live = S.FALSE
            self.steps.append(rec)
            return rec
        self.st = st2
        self._did(l)
        rec = {'op': 'match', 'q': q, 'taker': taker, 'ret': r, 'pre': pre, 'post': self.resting(),
               'agg': self.aggregates(), 'live': l, 'cuts': cuts, 'pre_level': pre_level, 'before': pre_level, 'after': self.level_value()}
        self.steps.append(rec)
        return rec

    def _cut_record(self, g, cst, fr, b):
        names = fr.fn.debug_names
        d = {'guard': g, 'level': cst.mem[self.root], 'block': b, 'fn': fr.fn, 'locals': {}}
        for n, idx in names.items():
            v = cst.mem.get(('L', fr.fid, idx), UNDEF)
            if v is not UNDEF:
                d['locals'][n] = v
        roles = match_roles(fr.fn) if fr.fn.name.endswith('::match_order') else {}
        for role in ('remaining', 'result', 'set_aside'):
            n = roles.get(role, role)
            if n in d['locals'] and role not in d['locals']:
                d['locals'][role] = d['locals'][n]
        d['remaining'] = d['locals'].get('remaining')
        d['result'] = d['locals'].get('result')
        return d

    def match_iteration(self, fn, block, q, remaining, result, extra_locals=None, taker=None):
        """ONE iteration of match_order's loop, started at the loop head `block` with arbitrary values
        of the loop-carried variables; returns a record like match() with the cuts reached at the
        next loop head"""
        taker = taker if taker is not None else const_order_id(TAKER_ID)
        pre = self.resting()
        pre_level = self.level_value()
        saved = (dict(self.ex.block_bounds), self.ex.capture_cuts)
        self.ex.block_bounds = dict(self.ex.block_bounds)
        self.ex.block_bounds[(fn.name, block)] = 1
        self.ex.capture_cuts = True
        ncut = len(self.ex.cuts)
        nunw = len(self.ex.unwinds)
        roles = match_roles(fn)
        byrole = {'self': self.lref, 'q': q, 'taker': taker, 'gen': self.gref, 'result': result, 'remaining': remaining}
        byrole.update(extra_locals or {})
        loc = {}
        for role, v in byrole.items():
            if role not in roles:
                raise Unsupported('match_order: cannot identify the variable that plays the role %r' % role)
            loc[roles[role]] = v
        r, st2, l, fr = self.ex.run_from(fn, block, loc, self.st.copy(), self._pc(), prologue=True)
        self.ex.block_bounds, self.ex.capture_cuts = saved
        cuts = [self._cut_record(g, cst, f2, b) for g, cst, f2, b in self.ex.cuts[ncut:]
                if f2.fn.name.endswith('::match_order')]
        keep = self.ex.unwinds[:nunw] + [u for u in self.ex.unwinds[nunw:]
                                         if not (u[1].endswith('::match_order') and u[2] == block)]
        self.ex.unwinds[:] = keep
        rec = {'op': 'match-iteration', 'q': q, 'taker': taker, 'ret': r, 'pre': pre, 'pre_level': pre_level,
               'cuts': cuts, 'live': l, 'start': {'remaining': remaining, 'result': result, 'locals': dict(loc, **byrole)}}
        if st2 is None:
            rec.update({'post': [], 'agg': None})
            self.live = S.FALSE
        else:
            self.st = st2
            self._did(l)
            rec.update({'post': self.resting(), 'agg': self.aggregates()})
        self.steps.append(rec)
        return rec

    # ---- direct reads of a level value (used on captured cut states, no code executed)
    def level_parts(self, lv):
        L = self.L
        m = lv[self.i_orders][self.i_map]
        q = lv[self.i_orders][self.i_q]
        return {'visible': lv[L.field_index('PriceLevel', 'visible_quantity')],
                'hidden': lv[L.field_index('PriceLevel', 'hidden_quantity')],
                'count': lv[L.field_index('PriceLevel', 'order_count')],
                'resting': [(occ, k, v) for k, occ, v in m.entries if occ is not S.FALSE],
                'tickets': list(q.entries),
                'stats': dict(zip(L.structs['PriceLevelStatistics'], lv[self.i_stats]))}

    def rep_invariant(self, lv, coverage_only=False):
        """representation invariant of a level value: every resting order is covered by an available
        ticket; per-order displayed+hidden does not overflow"""
        from .values import veq
        p = self.level_parts(lv)
        conj = []
        for occ, k, o in p['resting']:
            cov = [S.And(tp, S.Not(popped), veq(idv, k)) for _, tp, popped, idv in p['tickets']]
            conj.append(S.Implies(occ, S.Or(cov)))
            if not coverage_only:
                v = OrderView(self.L, o)
                conj.append(S.Implies(occ, S.Not(S.AddOvf(v.displayed, v.hidden))))
        return S.And(conj)

    def total_supply(self, lv, w=70):
        """sum of displayed+hidden over the resting orders of a level value, as a w-bit term"""
        p = self.level_parts(lv)
        tot = S.bv(0, w)
        for occ, k, o in p['resting']:
            v = OrderView(self.L, o)
            tot = S.Add(tot, S.Ite(occ, S.Add(S.ZExt(v.displayed, w), S.ZExt(v.hidden, w)), S.bv(0, w)))
        return tot

    def update(self, kind, oid, price=None, qty=None, side=None):
        k = UPDATE_KINDS.index(kind)
        if kind == 'UpdatePrice':
            fields = (oid, price)
        elif kind == 'UpdateQuantity':
            fields = (oid, qty)
        elif kind == 'UpdatePriceAndQuantity':
            fields = (oid, price, qty)
        elif kind == 'Cancel':
            fields = (oid,)
        else:
            fields = (oid, price, qty, side if side is not None else enum_const(0))
        upd = enum_const(k, fields)
        pre = self.resting()
        before = self.level_value()
        r, self.st, l = self.ex.call('PriceLevel::update_order', [self.lref, upd], self.st, self._pc())
        self._did(l)
        rec = {'op': 'update', 'kind': kind, 'id': oid, 'price': price, 'qty': qty, 'side': side, 'ret': r,
               'pre': pre, 'post': self.resting(), 'before': before, 'after': self.level_value(),
               'agg': self.aggregates()}
        self.steps.append(rec)
        return rec

    # ---- observations
    def level_value(self):
        return self.st.mem[self.root]

    def resting(self):
        """[(occupied, key, order)] read from the order map of the level (no code executed)"""
        m = self.level_value()[self.i_orders][self.i_map]
        return [(occ, k, v) for k, occ, v in m.entries if occ is not S.FALSE]

    def queue_state(self):
        return self.level_value()[self.i_orders][self.i_q].entries

    def aggregates(self):
        """visible / hidden / count through the public accessors (MIR)"""
        vis, self.st, _ = self.ex.call('PriceLevel::visible_quantity', [self.lref], self.st, self._pc())
        hid, self.st, _ = self.ex.call('PriceLevel::hidden_quantity', [self.lref], self.st, self._pc())
        cnt, self.st, _ = self.ex.call('PriceLevel::order_count', [self.lref], self.st, self._pc())
        # total_quantity() may panic on overflow: run it on a copy so that `live` is not strengthened;
        # the panic guard is recorded in ex.panics (an obligation of C01)
        tot, st2, lt = self.ex.call('PriceLevel::total_quantity', [self.lref], self.st.copy(), self._pc())
        if tot is None:
            tot = S.Add(vis, hid)
        return {'visible': vis, 'hidden': hid, 'count': cnt, 'total': tot, 'total_live': lt}

    def listing(self):
        v, self.st, l = self.ex.call('PriceLevel::iter_orders', [self.lref], self.st, self._pc())
        self._did(l)
        return v

    def stats(self):
        s = self.level_value()[self.i_stats]
        names = self.L.structs['PriceLevelStatistics']
        return dict(zip(names, s))

    def sums(self, resting):
        """(sum displayed, sum hidden, count) over a resting list, as 64-bit terms"""
        d = S.bv(0, 64)
        h = S.bv(0, 64)
        c = S.bv(0, 64)
        for occ, k, o in resting:
            v = OrderView(self.L, o)
            d = S.Add(d, S.Ite(occ, v.displayed, S.bv(0, 64)))
            h = S.Add(h, S.Ite(occ, v.hidden, S.bv(0, 64)))
            c = S.Add(c, S.B2BV(occ, 64))
        return d, h, c

    # ---- panics split by kind
    def price_mul_panics(self):
        return [p for p in self.ex.panics if 'record_execution' in p[2] and '*' in p[1]]

    def other_panics(self):
        return [p for p in self.ex.panics if not ('record_execution' in p[2] and '*' in p[1])]


# ------------------------------------------------------------------ JSON conversion for native replay

def uuid_str(n):
    return str(uuid.UUID(int=n & ((1 << 128) - 1)))


def order_id_str(c):
    """concretized OrderId ('enum', idx, (payload,)) -> text accepted by OrderId::from_str"""
    _, idx, p = c
    n = p[0]
    if idx == 0:
        return uuid_str(n)
    # ULID: 26 chars Crockford base32
    alphabet = '0123456789ABCDEFGHJKMNPQRSTVWXYZ'
    s = ''
    for _ in range(26):
        s = alphabet[n & 31] + s
        n >>= 5
    return s


SIDE = ['BUY', 'SELL']
TIF = ['GTC', 'IOC', 'FOK', 'GTD', 'DAY']
PEG = ['BestBid', 'BestAsk', 'MidPrice', 'LastTrade']


def _signed(v, w):
    return v - (1 << w) if v >> (w - 1) else v


def order_json(L, c):
    """concretized OrderType -> the crate's serde JSON form"""
    _, idx, fields = c
    vn, fns, fts = L.enums['OrderType'][idx]
    d = {}
    for fn, ft, v in zip(fns, fts, fields):
        if fn == 'id':
            d[fn] = order_id_str(v)
        elif fn == 'side':
            d[fn] = SIDE[v[1]]
        elif fn == 'time_in_force':
            d[fn] = {'GTD': v[2][0]} if v[1] == 3 else TIF[v[1]]
        elif fn == 'reference_price_type':
            d[fn] = PEG[v[1]]
        elif fn == 'reference_price_offset':
            d[fn] = _signed(v, 64)
        elif fn == 'replenish_amount':
            d[fn] = v[2][0] if v[1] == 1 else None
        elif fn == 'extra_fields':
            d[fn] = None
        elif ft == 'bool':
            d[fn] = bool(v)
        else:
            d[fn] = v
    return {vn: d}


def canon(x):
    return json.dumps(x, sort_keys=True)
