"""Environment models: every callee that is not a function of the crate.

Each model is part of the claim of a check (DESIGN.md section 2.3).  A callee without a model
raises Unsupported, so checks fail closed.  Models of shared-memory operations (atomics,
DashMap, SegQueue) first call ex.shared(...) so that a scheduler can place another thread's
operation at that point (concurrency mode S1).
"""
import re
from . import sym as S
from . import mir as M
from .values import (UNDEF, UNIT, EnumV, RefV, VecV, MapV, FifoV, Unsupported, merge, enum_const, none, some, option,
                     veq, empty_vec, key_repr, terms_of)
from .exec import load_path, store_path


def _head(t):
    t = t.strip()
    ref = ''
    m = re.match(r"^&\s*(?:'\w+\s+)?(mut\s+)?(.*)$", t, re.S)
    if m:
        ref = '&mut ' if m.group(1) else '&'
        t = m.group(2)
    if t.startswith('{closure@'):
        return ref + 'closure'
    if t.startswith('['):
        return ref + 'slice'
    return ref + M._type_head(t)


def norm(callee):
    c = callee.strip()
    m = re.match(r'^<(.*) as (.*)>::([A-Za-z_][A-Za-z0-9_]*)(?:::<.*>)?$', c, re.S)
    if m and M._balanced_angle(m.group(1)):
        return '<%s as %s>::%s' % (_head(m.group(1)), M._type_head(m.group(2)), m.group(3))
    plain = M.strip_generics(c)
    segs = [s for s in plain.split('::') if s]
    return '::'.join(segs[-2:])


def select(cells, idx, w=64):
    """cells[idx] with symbolic idx (ite chain); UNDEF cells are skipped"""
    if S.is_const(idx):
        i = S.cval(idx)
        return cells[i] if i < len(cells) else UNDEF
    acc = UNDEF
    for i in reversed(range(len(cells))):
        if cells[i] is UNDEF:
            continue
        acc = merge(S.Eq(idx, S.bv(i, w)), cells[i], acc)
    return acc


class Models(object):
    def __init__(self):
        self.map_cap = 3
        self.queue_cap = 8
        self.vec_cap = 8
        self.map_iter_symbolic = False
        self.table = {}
        self.assumptions = []
        self.clock_vars = []
        self.v5_apps = []
        self.fresh = 0
        self.used = {}
        self._register()
        from . import stdmodels
        stdmodels.register(self)

    def reset(self):
        self.assumptions = []
        self.clock_vars = []
        self.v5_apps = []
        self.fresh = 0

    def fresh_var(self, prefix, sort):
        self.fresh += 1
        return S.var('%s!%d' % (prefix, self.fresh), sort)

    # ------------------------------------------------------------------ dispatch
    def call(self, ex, fr, callee, argv, st, pc, arg_ops):
        key = norm(callee)
        h = self.table.get(key)
        if h is None and key.endswith(' as Clone>::clone'):
            # Clone of a type without a Clone impl in the crate: std / derived-on-foreign type = value copy
            h = self.table['<T as Clone>::clone']
        if h is None:
            # iterator traits are modelled once for every implementing type (dispatch is on the model value)
            m = re.match(r'^<(.*) as (Iterator|IntoIterator|ExactSizeIterator)>::([A-Za-z_0-9]+)$', key)
            if m:
                h = self.table.get('<I as %s>::%s' % (m.group(2), m.group(3)))
        if h is None:
            raise Unsupported('no environment model for callee `%s` (key %s) in %s' % (callee, key, fr.fn.name))
        self.used[key] = self.used.get(key, 0) + 1
        r = h(ex, fr, callee, argv, st, pc)
        if len(r) == 2:
            return r[0], st, r[1]
        return r

    def reg(self, keys, f):
        for k in keys.split('|'):
            self.table[k.strip()] = f

    # ------------------------------------------------------------------ helpers
    @staticmethod
    def rd(st, ref):
        if not isinstance(ref, RefV):
            raise Unsupported('expected reference, got %r' % (ref,))
        return load_path(st.mem.get(ref.root, UNDEF), ref.path)

    @staticmethod
    def wr(st, ref, v):
        if not ref.path:
            st.mem[ref.root] = v
        else:
            st.mem[ref.root] = store_path(st.mem.get(ref.root, UNDEF), ref.path, v)

    def capacity_event(self, ex, cond, what, fr):
        if cond is not S.FALSE:
            ex.unwinds.append((cond, 'capacity:' + what, fr.fn.name))

    # ------------------------------------------------------------------ registration
    def _register(self):
        R = self.reg
        # --- transparent wrappers
        R('Arc::new|Box::new', lambda ex, fr, c, a, st, pc: (a[0], S.TRUE))
        R('<Arc as Deref>::deref|<Box as Deref>::deref|<Vec as Deref>::deref|<Vec as DerefMut>::deref_mut|'
          '<String as Deref>::deref|<Vec as AsRef>::as_ref',
          lambda ex, fr, c, a, st, pc: (a[0], S.TRUE))
        R('<Arc as Clone>::clone|<T as Clone>::clone|<Vec as Clone>::clone|<OrderId as Clone>::clone|'
          '<Side as Clone>::clone|<TimeInForce as Clone>::clone|<u64 as Clone>::clone',
          lambda ex, fr, c, a, st, pc: (self.rd(st, a[0]), S.TRUE))
        R('mem::drop', lambda ex, fr, c, a, st, pc: (UNIT, S.TRUE))
        # --- atomics
        R('Atomic::new', lambda ex, fr, c, a, st, pc: (a[0], S.TRUE))
        R('Atomic::load', self.atomic_load)
        R('Atomic::store', self.atomic_store)
        R('Atomic::fetch_add', lambda *x: self.atomic_rmw(S.Add, *x))
        R('Atomic::fetch_sub', lambda *x: self.atomic_rmw(S.Sub, *x))
        # --- integers / options
        R('num::saturating_add', lambda ex, fr, c, a, st, pc:
          (S.Ite(S.AddOvf(a[0], a[1]), S.bv(-1, a[0].sort), S.Add(a[0], a[1])), S.TRUE))
        R('num::saturating_sub', lambda ex, fr, c, a, st, pc:
          (S.Ite(S.Ult(a[0], a[1]), S.bv(0, a[0].sort), S.Sub(a[0], a[1])), S.TRUE))
        R('num::wrapping_add', lambda ex, fr, c, a, st, pc: (S.Add(a[0], a[1]), S.TRUE))
        R('num::wrapping_sub', lambda ex, fr, c, a, st, pc: (S.Sub(a[0], a[1]), S.TRUE))
        R('<u64 as Ord>::min|cmp::min|<usize as Ord>::min', lambda ex, fr, c, a, st, pc: (S.Umin(a[0], a[1]), S.TRUE))
        R('<u64 as Ord>::max|cmp::max|<usize as Ord>::max', lambda ex, fr, c, a, st, pc: (S.Umax(a[0], a[1]), S.TRUE))
        R('Option::unwrap_or', self.opt_unwrap_or)
        R('Option::is_none', lambda ex, fr, c, a, st, pc: (S.Eq(self.rd(st, a[0]).tag, S.bv(0, 64)), S.TRUE))
        R('Option::is_some', lambda ex, fr, c, a, st, pc: (S.Eq(self.rd(st, a[0]).tag, S.bv(1, 64)), S.TRUE))
        R('Option::map', self.opt_map)
        self._register_more()
        # --- dashmap
        R('DashMap::new', lambda ex, fr, c, a, st, pc: (MapV(), S.TRUE))
        R('DashMap::insert', self.dm_insert)
        R('DashMap::remove', self.dm_remove)
        R('DashMap::get', self.dm_get)
        R('DashMap::len', self.dm_len)
        R('DashMap::is_empty', self.dm_is_empty)
        R('DashMap::iter', self.dm_iter)
        R('Ref::value|RefMulti::value|<RefMulti as Deref>::deref|<Ref as Deref>::deref', self.dmref_value)
        # --- segqueue
        R('SegQueue::new', lambda ex, fr, c, a, st, pc: (FifoV(), S.TRUE))
        R('SegQueue::push', self.sq_push)
        R('SegQueue::pop', self.sq_pop)
        # --- vec / iterators
        R('Vec::new', lambda ex, fr, c, a, st, pc: (empty_vec(), S.TRUE))
        R('Vec::len', lambda ex, fr, c, a, st, pc: (self.rd(st, a[0]).length, S.TRUE))
        R('Vec::is_empty', lambda ex, fr, c, a, st, pc: (S.Eq(self.rd(st, a[0]).length, S.bv(0, 64)), S.TRUE))
        R('Vec::push', self.vec_push)
        R('<Vec as IntoIterator>::into_iter', lambda ex, fr, c, a, st, pc:
          (('veciter', a[0], S.bv(0, 64), 'val'), S.TRUE))
        R('<&Vec as IntoIterator>::into_iter|slice::iter', lambda ex, fr, c, a, st, pc:
          (('veciter', self.rd(st, a[0]), S.bv(0, 64), 'ref'), S.TRUE))
        R('<Iter as Iterator>::next|<IntoIter as Iterator>::next', self.iter_next)
        R('<Iter as Iterator>::map|<IntoIter as Iterator>::map', lambda ex, fr, c, a, st, pc:
          (('mapiter', a[0], a[1]), S.TRUE))
        R('<Map as Iterator>::collect', self.map_collect)
        R('BTreeMap::into_values', lambda ex, fr, c, a, st, pc:
          (('veciter', VecV([kv[1] if kv is not UNDEF else UNDEF for kv in a[0][1].cells], a[0][1].length), S.bv(0, 64), 'val'), S.TRUE))
        R('BTreeMap::len', lambda ex, fr, c, a, st, pc: (self.rd(st, a[0])[1].length, S.TRUE))

        def veciter_collect(ex, fr, c, a, st, pc):
            it = a[0]
            if it[0] != 'veciter' or it[3] != 'val' or not (S.is_const(it[2]) and S.cval(it[2]) == 0):
                raise Unsupported('collect on %r' % (it[0],))
            if 'BTreeMap' in c or 'HashMap' in c or 'HashSet' in c or 'BTreeSet' in c:
                raise Unsupported('collect into a map/set from a plain iterator')
            return it[1], S.TRUE
        R('<IntoValues as Iterator>::collect|<IntoIter as Iterator>::collect', veciter_collect)

        def uuid_as_bytes(ex, fr, c, a, st, pc):
            u = self.rd(st, a[0])
            if isinstance(u, tuple) and len(u) == 1:
                u = u[0]
            if not isinstance(u, S.Term) or u.sort != 128:
                raise Unsupported('Uuid::as_bytes on %r' % (u,))
            by = tuple(S.Extract(127 - 8 * i, 120 - 8 * i, u) for i in range(16))
            return RefV(ex.alloc(st, by, 'uuidbytes'), ()), S.TRUE
        R('Uuid::as_bytes', uuid_as_bytes)

        def ulid_to_bytes(ex, fr, c, a, st, pc):
            u = a[0]
            while isinstance(u, RefV):
                u = self.rd(st, u)
            if isinstance(u, tuple) and len(u) == 1:
                u = u[0]
            if not isinstance(u, S.Term) or u.sort != 128:
                raise Unsupported('Ulid::to_bytes on %r' % (u,))
            return tuple(S.Extract(127 - 8 * i, 120 - 8 * i, u) for i in range(16)), S.TRUE
        R('Ulid::to_bytes|Uuid::into_bytes|Uuid::to_bytes_le', ulid_to_bytes)
        R('Uuid::as_u128|Ulid::0', lambda ex, fr, c, a, st, pc: (self._deep(st, a[0]), S.TRUE))

        def from_be(ex, fr, c, a, st, pc):
            by = a[0]
            if not isinstance(by, tuple) or not all(isinstance(b, S.Term) for b in by):
                raise Unsupported('from_be_bytes on %r' % (by,))
            r = by[0]
            for b in by[1:]:
                r = S.Concat(r, b)
            return r, S.TRUE
        R('num::from_be_bytes', from_be)
        R('<Map as Iterator>::sum', self.map_sum)
        R('slice::sort_by_key', self.sort_by_key)
        # --- time
        R('SystemTime::now', self.time_now)
        R('SystemTime::duration_since', lambda ex, fr, c, a, st, pc:
          (enum_const(0, (('duration', self.rd(st, a[0])[1]),)), S.TRUE))
        R('Result::unwrap_or_default|Result::expect|Result::unwrap', self.result_unwrap)
        R('Duration::as_millis', lambda ex, fr, c, a, st, pc: (S.ZExt(self.rd(st, a[0])[1], 128), S.TRUE))
        # --- uuid
        R('<u64 as ToString>::to_string', lambda ex, fr, c, a, st, pc: (('decstr', self.rd(st, a[0])), S.TRUE))
        R('String::as_bytes', lambda ex, fr, c, a, st, pc: (a[0], S.TRUE))
        # text only used for error messages: opaque
        R('<str as ToString>::to_string', lambda ex, fr, c, a, st, pc: (('string', self._deepv(st, a[0])), S.TRUE))
        R('<String as Clone>::clone', lambda ex, fr, c, a, st, pc: (self._deepv(st, a[0]), S.TRUE))
        R('fmt::format', lambda ex, fr, c, a, st, pc: (('string', a[0]), S.TRUE))
        R('v5::new_v5', self.uuid_v5)
        R('Uuid::nil', lambda ex, fr, c, a, st, pc: (S.bv(0, 128), S.TRUE))
        R('Uuid::is_nil', lambda ex, fr, c, a, st, pc: (S.Eq(self._deep(st, a[0]), S.bv(0, 128)), S.TRUE))
        R('v4::new_v4|Uuid::new_v4', lambda ex, fr, c, a, st, pc: (self.fresh_var('random_uuid', 128), S.TRUE))
        R('<Uuid as PartialEq>::eq|<&Uuid as PartialEq>::eq', lambda ex, fr, c, a, st, pc: (S.Eq(self._deep(st, a[0]), self._deep(st, a[1])), S.TRUE))
        # --- formatting is opaque (the text is not the subject of any check that runs Display)
        opaque = lambda ex, fr, c, a, st, pc: (('fmt', 'opaque'), S.TRUE)
        R('slice::join|<Arc as ToString>::to_string|<OrderType as ToString>::to_string', opaque)
        # format!: an injective (structural) function of its arguments
        R('Argument::new_display|Argument::new_debug|Argument::new_lower_hex', lambda ex, fr, c, a, st, pc: (('fmtarg', self._deepv(st, a[0])), S.TRUE))
        R('Arguments::new|Arguments::new_const', lambda ex, fr, c, a, st, pc: (('fmtargs',) + tuple(self._deepv(st, x) for x in a), S.TRUE))
        R('must_use', lambda ex, fr, c, a, st, pc: (a[0], S.TRUE))
        self._register_serde()
        R('Formatter::write_fmt|Formatter::write_str', lambda ex, fr, c, a, st, pc: (enum_const(0, (UNIT,)), S.TRUE))

    def _register_more(self):
        """std items that realistic edits of the crate are likely to use"""
        R = self.reg
        rd = self.rd
        b64 = lambda n: S.bv(n, 64)

        def tag_is(o, k):
            return S.Eq(o.tag, b64(k))

        def payload(o, k):
            p = o.payloads.get(k, UNDEF)
            return p[0] if (p is not UNDEF and len(p)) else UNDEF

        # ? operator
        def opt_branch(ex, fr, c, a, st, pc):
            o = a[0]
            v = payload(o, 1)
            return EnumV(S.Ite(tag_is(o, 1), b64(0), b64(1)), {0: (v,), 1: (none(),)}), S.TRUE
        R('<Option as Try>::branch', opt_branch)
        R('<Option as FromResidual>::from_residual', lambda ex, fr, c, a, st, pc: (none(), S.TRUE))

        def res_branch(ex, fr, c, a, st, pc):
            r = a[0]
            ok, er = payload(r, 0), payload(r, 1)
            brk = EnumV(b64(1), {1: (er,)})
            return EnumV(S.Ite(tag_is(r, 0), b64(0), b64(1)), {0: (ok,), 1: (brk,)}), S.TRUE
        R('<Result as Try>::branch', res_branch)
        R('<Result as FromResidual>::from_residual', lambda ex, fr, c, a, st, pc:
          (EnumV(b64(1), {1: (payload(a[0], 1),)}), S.TRUE))
        R('<PriceLevelError as From>::from|<T as From>::from|<T as Into>::into', lambda ex, fr, c, a, st, pc: (a[0], S.TRUE))

        # Option helpers
        def opt_unwrap(ex, fr, c, a, st, pc):
            o = a[0]
            bad = S.And(pc, S.Not(tag_is(o, 1)))
            if bad is not S.FALSE:
                ex.panics.append((bad, 'called `Option::unwrap()`/expect on a `None` value', fr.fn.name, -1))
            v = payload(o, 1)
            if v is UNDEF:
                return None, None, S.FALSE
            return v, st, tag_is(o, 1)
        R('Option::unwrap|Option::expect', opt_unwrap)
        R('Option::unwrap_or_default', lambda ex, fr, c, a, st, pc:
          (merge(tag_is(a[0], 1), payload(a[0], 1), S.bv(0, payload(a[0], 1).sort)), S.TRUE))
        R('Option::as_ref|Option::as_deref', lambda ex, fr, c, a, st, pc:
          ((rd(st, a[0]) if isinstance(a[0], RefV) else a[0]), S.TRUE))

        def opt_cloned(ex, fr, c, a, st, pc):
            o = rd(st, a[0]) if isinstance(a[0], RefV) else a[0]
            p_ = o.payloads.get(1, UNDEF)
            if p_ is not UNDEF and len(p_) and isinstance(p_[0], RefV):
                v = p_[0]
                while isinstance(v, RefV):
                    v = rd(st, v)
                pl = dict(o.payloads)
                pl[1] = (v,)
                o = EnumV(o.tag, pl)
            return o, S.TRUE
        R('Option::cloned|Option::copied', opt_cloned)

        def opt_take(ex, fr, c, a, st, pc):
            o = rd(st, a[0])
            np_ = dict(o.payloads)
            np_[0] = ()
            self.wr(st, a[0], EnumV(b64(0), np_))
            return o, S.TRUE
        R('Option::take', opt_take)

        def opt_or_else(kind):
            def f(ex, fr, c, a, st, pc):
                from .exec import merge_states
                o, cl = a
                is_some = tag_is(o, 1)
                if is_some is S.TRUE:
                    return (o if kind == 'or_else' else payload(o, 1)), st, S.TRUE
                base = st
                rv, st2, live = ex.call_closure(cl, [], st.copy() if is_some is not S.FALSE else st,
                                                S.And(pc, S.Not(is_some)))
                if st2 is None:
                    return (o if kind == 'or_else' else payload(o, 1)), base, is_some
                if is_some is S.FALSE:
                    return rv, st2, live
                st3 = merge_states([(is_some, base), (S.Not(is_some), st2)])
                mine = o if kind == 'or_else' else payload(o, 1)
                return merge(is_some, mine, rv), st3, S.Or(is_some, live)
            return f
        R('Option::or_else', opt_or_else('or_else'))
        R('Option::unwrap_or_else', opt_or_else('unwrap_or_else'))

        def opt_ok_or(ex, fr, c, a, st, pc):
            o = a[0]
            return EnumV(S.Ite(tag_is(o, 1), b64(0), b64(1)), {0: (payload(o, 1),), 1: (a[1],)}), S.TRUE
        R('Option::ok_or', opt_ok_or)

        # integers
        def checked(op, ovf):
            def f(ex, fr, c, a, st, pc):
                return option(S.Not(ovf(a[0], a[1])), op(a[0], a[1])), S.TRUE
            return f
        R('num::checked_add', checked(S.Add, S.AddOvf))
        R('num::checked_sub', checked(S.Sub, S.SubOvf))
        R('num::checked_mul', checked(S.Mul, S.MulOvf))
        R('num::min|<u32 as Ord>::min', lambda ex, fr, c, a, st, pc: (S.Umin(a[0], a[1]), S.TRUE))
        R('num::max|<u32 as Ord>::max', lambda ex, fr, c, a, st, pc: (S.Umax(a[0], a[1]), S.TRUE))
        R('num::abs_diff', lambda ex, fr, c, a, st, pc:
          (S.Ite(S.Ult(a[0], a[1]), S.Sub(a[1], a[0]), S.Sub(a[0], a[1])), S.TRUE))
        R('num::saturating_mul', lambda ex, fr, c, a, st, pc:
          (S.Ite(S.MulOvf(a[0], a[1]), S.bv(-1, a[0].sort), S.Mul(a[0], a[1])), S.TRUE))
        R('num::wrapping_mul', lambda ex, fr, c, a, st, pc: (S.Mul(a[0], a[1]), S.TRUE))
        R('num::div_ceil', lambda ex, fr, c, a, st, pc:
          (S.Add(S.UDiv(a[0], a[1]), S.B2BV(S.Not(S.Eq(S.URem(a[0], a[1]), S.bv(0, a[0].sort))), a[0].sort)),
           S.Not(S.Eq(a[1], S.bv(0, a[1].sort)))))
        R('<u64 as PartialEq>::eq|<usize as PartialEq>::eq|<&u64 as PartialEq>::eq', lambda ex, fr, c, a, st, pc:
          (S.Eq(self._deep(st, a[0]), self._deep(st, a[1])), S.TRUE))
        R('<OrderId as PartialEq>::eq|<&OrderId as PartialEq>::eq|<Side as PartialEq>::eq|<OrderType as PartialEq>::eq',
          lambda ex, fr, c, a, st, pc: (veq(self._deep(st, a[0]), self._deep(st, a[1])), S.TRUE))
        R('<OrderId as PartialEq>::ne|<&OrderId as PartialEq>::ne', lambda ex, fr, c, a, st, pc:
          (S.Not(veq(self._deep(st, a[0]), self._deep(st, a[1]))), S.TRUE))

        # queue / map / vec extras
        def sq_len(ex, fr, c, a, st, pc):
            st = ex.shared('queue.len', a[0], st, pc)
            q = rd(st, a[0])
            return S.Sum([S.B2BV(S.And(p_, S.Not(pp)), 64) for _, p_, pp, _ in q.entries], 64), st, S.TRUE
        R('SegQueue::len', sq_len)

        def sq_empty(ex, fr, c, a, st, pc):
            st = ex.shared('queue.len', a[0], st, pc)
            q = rd(st, a[0])
            return S.Not(S.Or([S.And(p_, S.Not(pp)) for _, p_, pp, _ in q.entries])), st, S.TRUE
        R('SegQueue::is_empty', sq_empty)

        def dm_contains(ex, fr, c, a, st, pc):
            st = ex.shared('map.get', a[0], st, pc)
            hit, val, _ = self._lookup(self._map(st, a[0]), rd(st, a[1]))
            return hit, st, S.TRUE
        R('DashMap::contains_key', dm_contains)
        R('Vec::with_capacity', lambda ex, fr, c, a, st, pc: (empty_vec(), S.TRUE))
        R('Vec::clear', lambda ex, fr, c, a, st, pc: (self.wr(st, a[0], empty_vec()) or UNIT, S.TRUE))

        def sl_contains(ex, fr, c, a, st, pc):
            v = self._deep(st, a[0])
            x = self._deep(st, a[1])
            if not isinstance(v, VecV):
                raise Unsupported('contains on %r' % (v,))
            return S.Or([S.And(S.Ult(b64(i), v.length), veq(e, x)) for i, e in enumerate(v.cells) if e is not UNDEF]), S.TRUE
        R('slice::contains|Vec::contains', sl_contains)

        def vec_drain(ex, fr, c, a, st, pc):
            v = rd(st, a[0])
            self.wr(st, a[0], empty_vec())
            return ('veciter', v, b64(0), 'val'), S.TRUE
        R('Vec::drain', vec_drain)
        R('<Drain as IntoIterator>::into_iter|<IntoIter as IntoIterator>::into_iter|<Iter as IntoIterator>::into_iter|'
          '<Map as IntoIterator>::into_iter', lambda ex, fr, c, a, st, pc: (a[0], S.TRUE))
        R('<Drain as Iterator>::next', self.iter_next)

        def vec_first_last(which):
            def f(ex, fr, c, a, st, pc):
                v = self._deep(st, a[0])
                has = S.Not(S.Eq(v.length, b64(0)))
                idx = b64(0) if which == 'first' else S.Sub(v.length, b64(1))
                e = select(v.cells, idx)
                if e is UNDEF:
                    return none(), S.TRUE
                return option(has, RefV(ex.alloc(st, e, 'elem'), ())), S.TRUE
            return f
        R('slice::first|Vec::first', vec_first_last('first'))
        R('slice::last|Vec::last', vec_first_last('last'))

        def vec_extend(ex, fr, c, a, st, pc):
            v = rd(st, a[0])
            src = a[1]
            if isinstance(src, tuple) and src and src[0] == 'veciter':
                src = src[1]
            if not isinstance(src, VecV) or not S.is_const(src.length) or not S.is_const(v.length):
                raise Unsupported('Vec::extend with symbolic lengths')
            k, m = S.cval(v.length), S.cval(src.length)
            self.wr(st, a[0], VecV(v.cells[:k] + src.cells[:m], b64(k + m)))
            return UNIT, S.TRUE
        R('<Vec as Extend>::extend|Vec::append', vec_extend)

        def iter_any_all(which):
            def f(ex, fr, c, a, st, pc):
                from .exec import merge_states
                it = self._deep(st, a[0])
                if not (isinstance(it, tuple) and it and it[0] == 'veciter'):
                    raise Unsupported('Iterator::%s on %r' % (which, it))
                _, vec, idx, mode = it
                if not S.is_const(idx):
                    raise Unsupported('Iterator::%s on a partly consumed iterator' % which)
                acc = S.FALSE if which == 'any' else S.TRUE
                live = S.TRUE
                for i in range(S.cval(idx), len(vec.cells)):
                    e = vec.cells[i]
                    if e is UNDEF:
                        continue
                    has = S.Ult(b64(i), vec.length)
                    if has is S.FALSE:
                        continue
                    arg = RefV(ex.alloc(st, e, 'elem'), ()) if mode == 'ref' else e
                    base = st
                    r, st2, l2 = ex.call_closure(a[1], [arg], st.copy() if has is not S.TRUE else st, S.And(pc, has))
                    if st2 is None:
                        raise Unsupported('closure of Iterator::%s diverges' % which)
                    st = merge_states([(has, st2), (S.Not(has), base)]) if has is not S.TRUE else st2
                    live = S.And(live, S.Or(S.Not(has), l2))
                    acc = S.Or(acc, S.And(has, r)) if which == 'any' else S.And(acc, S.Or(S.Not(has), r))
                return acc, st, live
            return f
        R('<Iter as Iterator>::any|<IntoIter as Iterator>::any', iter_any_all('any'))
        R('<Iter as Iterator>::all|<IntoIter as Iterator>::all', iter_any_all('all'))

        def vec_swap_remove(ex, fr, c, a, st, pc):
            v = rd(st, a[0])
            idx = a[1]
            bad = S.And(pc, S.Uge(idx, v.length))
            if bad is not S.FALSE:
                ex.panics.append((bad, 'swap_remove index out of bounds', fr.fn.name, -1))
            last = S.Sub(v.length, b64(1))
            e = select(v.cells, idx)
            le = select(v.cells, last)
            cells = list(v.cells)
            for i in range(len(cells)):
                if le is not UNDEF and cells[i] is not UNDEF:
                    cells[i] = merge(S.Eq(idx, b64(i)), le, cells[i])
            self.wr(st, a[0], VecV(cells, last))
            return e, st, S.Ult(idx, v.length)
        R('Vec::swap_remove', vec_swap_remove)

        def vec_remove(ex, fr, c, a, st, pc):
            v = rd(st, a[0])
            idx = a[1]
            if not S.is_const(idx):
                raise Unsupported('Vec::remove with symbolic index')
            i0 = S.cval(idx)
            bad = S.And(pc, S.Uge(idx, v.length))
            if bad is not S.FALSE:
                ex.panics.append((bad, 'removal index out of bounds', fr.fn.name, -1))
            e = v.cells[i0] if i0 < len(v.cells) else UNDEF
            cells = list(v.cells[:i0]) + list(v.cells[i0 + 1:])
            self.wr(st, a[0], VecV(cells, S.Sub(v.length, b64(1))))
            return e, st, S.Ult(idx, v.length)
        R('Vec::remove', vec_remove)
        def iter_take(ex, fr, c, a, st, pc):
            it = a[0]
            if not (isinstance(it, tuple) and it[0] == 'veciter' and S.is_const(it[2]) and S.cval(it[2]) == 0):
                raise Unsupported('Iterator::take on %r' % (it,))
            _, vec, idx, mode = it
            return ('veciter', VecV(vec.cells, S.Umin(vec.length, a[1])), idx, mode), S.TRUE
        R('<IntoIter as Iterator>::take|<Iter as Iterator>::take', iter_take)
        R('<Take as IntoIterator>::into_iter|<Filter as IntoIterator>::into_iter', lambda ex, fr, c, a, st, pc: (a[0], S.TRUE))
        R('<Take as Iterator>::next', self.iter_next)
        R('<IntoIter as Iterator>::filter|<Iter as Iterator>::filter', lambda ex, fr, c, a, st, pc: (('filteriter', a[0], a[1]), S.TRUE))

        def filter_collect(ex, fr, c, a, st, pc):
            from .exec import merge_states
            it = a[0]
            inner, cl = it[1], it[2]
            if not (isinstance(inner, tuple) and inner[0] == 'veciter' and S.is_const(inner[2])):
                raise Unsupported('filter over %r' % (inner[0] if isinstance(inner, tuple) else inner,))
            _, vec, idx, mode = inner
            n = len(vec.cells)
            cells = [UNDEF] * n
            cnt = b64(0)
            for i in range(S.cval(idx), n):
                e = vec.cells[i]
                if e is UNDEF:
                    continue
                has = S.Ult(b64(i), vec.length)
                if has is S.FALSE:
                    continue
                ref = RefV(ex.alloc(st, (RefV(ex.alloc(st, e, 'elem'), ()) if mode == 'ref' else e), 'farg'), ())
                base = st
                keep, st2, l2 = ex.call_closure(cl, [ref], st.copy() if has is not S.TRUE else st, S.And(pc, has))
                if st2 is None:
                    raise Unsupported('filter closure diverges')
                st = merge_states([(has, st2), (S.Not(has), base)]) if has is not S.TRUE else st2
                take = S.And(has, keep)
                item = RefV(ex.alloc(st, e, 'elem'), ()) if mode == 'ref' else e
                for k in range(n):
                    cells[k] = merge(S.And(take, S.Eq(cnt, b64(k))), item, cells[k])
                cnt = S.Ite(take, S.Add(cnt, b64(1)), cnt)
            return VecV(cells, cnt), st, S.TRUE
        R('<Filter as Iterator>::collect', filter_collect)

        def vec_pop(ex, fr, c, a, st, pc):
            v = rd(st, a[0])
            has = S.Not(S.Eq(v.length, b64(0)))
            nl = S.Ite(has, S.Sub(v.length, b64(1)), v.length)
            e = select(v.cells, nl)
            self.wr(st, a[0], VecV(v.cells, nl))
            if e is UNDEF:
                return none(), S.TRUE
            return option(has, e), S.TRUE
        R('Vec::pop', vec_pop)

        # atomics extras
        def at_swap(ex, fr, c, a, st, pc):
            st = ex.shared('atomic.rmw', a[0], st, pc)
            old = rd(st, a[0])
            self.wr(st, a[0], a[1])
            return old, st, S.TRUE
        R('Atomic::swap', at_swap)
        R('Atomic::fetch_max', lambda *x: self.atomic_rmw(S.Umax, *x))
        R('Atomic::fetch_min', lambda *x: self.atomic_rmw(S.Umin, *x))

        def at_cas(ex, fr, c, a, st, pc):
            st = ex.shared('atomic.rmw', a[0], st, pc)
            old = rd(st, a[0])
            ok = S.Eq(old, a[1])
            self.wr(st, a[0], S.Ite(ok, a[2], old))
            return EnumV(S.Ite(ok, b64(0), b64(1)), {0: (old,), 1: (old,)}), st, S.TRUE
        R('Atomic::compare_exchange|Atomic::compare_exchange_weak', at_cas)

    def _deepv(self, st, v):
        """value with every reference followed (for structural recording)"""
        v = self._deep(st, v)
        if isinstance(v, tuple):
            return tuple(self._deepv(st, x) for x in v)
        return v

    def _register_serde(self):
        """recording serializer + abstract digest: serde_json::to_vec and SHA-256 are injective functions of what the
        real Serialize impls hand over (DESIGN.md 2.3)"""
        R = self.reg

        def ser_struct(ex, fr, c, a, st, pc):
            return enum_const(0, (('recstate', self._deepv(st, a[1]), ()),)), S.TRUE
        R('<S as Serializer>::serialize_struct|<__S as Serializer>::serialize_struct', ser_struct)

        def ser_field(ex, fr, c, a, st, pc):
            stt = self.rd(st, a[0])
            val = self._deepv(st, a[2])
            self.wr(st, a[0], ('recstate', stt[1], stt[2] + ((self._deepv(st, a[1]), val),)))
            return enum_const(0, (UNIT,)), S.TRUE
        R('<SerializeStruct as SerializeStruct>::serialize_field', ser_field)
        R('<SerializeStruct as SerializeStruct>::end', lambda ex, fr, c, a, st, pc:
          (enum_const(0, (('record', a[0][1], a[0][2]),)), S.TRUE))

        def to_vec(ex, fr, c, a, st, pc):
            m = re.search(r'to_vec::<(.*)>$', c.strip())
            ty = M._type_head(m.group(1)) if m else None
            fn = ex.resolve('<%s as Serialize>::serialize' % ty)
            if fn is None:
                raise Unsupported('serde_json::to_vec of %r: no Serialize impl in the crate' % ty)
            r, st2, l = ex.call_fn(fn, [a[0], ('recorder',)], st, pc)
            if st2 is None:
                return None, None, S.FALSE
            ok = r.payloads.get(0, UNDEF)
            return EnumV(r.tag, {0: (('jsonbytes', ok[0] if ok is not UNDEF else UNDEF),), 1: r.payloads.get(1, (('sererr',),))}), st2, l
        R('to_vec', to_vec)

        def map_err(ex, fr, c, a, st, pc):
            r = a[0]
            if S.is_const(r.tag) and S.cval(r.tag) == 0:
                return r, S.TRUE
            raise Unsupported('Result::map_err on a possibly failing result')
        R('Result::map_err', map_err)
        R('<CoreWrapper as Digest>::new', lambda ex, fr, c, a, st, pc: (('sha256', ()), S.TRUE))

        def sha_update(ex, fr, c, a, st, pc):
            hh = self.rd(st, a[0])
            self.wr(st, a[0], ('sha256', hh[1] + (self._deepv(st, a[1]),)))
            return UNIT, S.TRUE
        R('<CoreWrapper as Digest>::update', sha_update)
        R('<CoreWrapper as Digest>::finalize', lambda ex, fr, c, a, st, pc: (('digest', a[0][1]), S.TRUE))
        R('<String as PartialEq>::ne|<str as PartialEq>::ne', lambda ex, fr, c, a, st, pc:
          (S.Not(veq(self._deepv(st, a[0]), self._deepv(st, a[1]))), S.TRUE))
        R('<String as PartialEq>::eq|<str as PartialEq>::eq', lambda ex, fr, c, a, st, pc:
          (veq(self._deepv(st, a[0]), self._deepv(st, a[1])), S.TRUE))

    def _deep(self, st, v):
        while isinstance(v, RefV):
            v = self.rd(st, v)
        return v

    # ------------------------------------------------------------------ atomics
    def atomic_load(self, ex, fr, c, a, st, pc):
        st = ex.shared('atomic.load', a[0], st, pc)
        return self.rd(st, a[0]), st, S.TRUE

    def atomic_store(self, ex, fr, c, a, st, pc):
        st = ex.shared('atomic.store', a[0], st, pc)
        self.wr(st, a[0], a[1])
        return UNIT, st, S.TRUE

    def atomic_rmw(self, op, ex, fr, c, a, st, pc):
        st = ex.shared('atomic.rmw', a[0], st, pc)
        old = self.rd(st, a[0])
        self.wr(st, a[0], op(old, a[1]))
        return old, st, S.TRUE

    # ------------------------------------------------------------------ option
    def opt_unwrap_or(self, ex, fr, c, a, st, pc):
        o = a[0]
        p = o.payloads.get(1, UNDEF)
        if p is UNDEF:
            return a[1], S.TRUE
        return merge(S.Eq(o.tag, S.bv(1, 64)), p[0], a[1]), S.TRUE

    def opt_map(self, ex, fr, c, a, st, pc):
        o, cl = a
        is_some = S.Eq(o.tag, S.bv(1, 64))
        if is_some is S.FALSE or o.payloads.get(1, UNDEF) is UNDEF:
            return EnumV(o.tag, {0: ()}), st, S.TRUE
        rv, st2, live = ex.call_closure(cl, [o.payloads[1][0]], st.copy() if is_some is not S.TRUE else st,
                                        S.And(pc, is_some))
        if st2 is None:
            return None, None, S.FALSE
        if is_some is not S.TRUE:
            from .exec import merge_states
            st2 = merge_states([(is_some, st2), (S.Not(is_some), st)])
        return EnumV(o.tag, {0: (), 1: (rv,)}), st2, S.Or(S.Not(is_some), live)

    # ------------------------------------------------------------------ dashmap
    # The map is a set of entries indexed by *concrete* candidate keys.  A symbolic key must be a
    # const-leaf ite tree (e.g. a selector over the ids used in the scenario); it is resolved by
    # case distinction over its possible constant values.
    def _map(self, st, ref):
        v = self.rd(st, ref)
        if not isinstance(v, MapV):
            raise Unsupported('not a map model: %r' % (v,))
        return v

    def candidates(self, key):
        """[(concrete key value, condition that key equals it)]"""
        r = key_repr(key)
        if r is not None:
            return [(key, S.TRUE)]
        ts = terms_of(key, [])
        if not all(t.cl for t in ts):
            raise Unsupported('map key is neither constant nor a selector over constants: %r' % (key,))

        def expand(v):
            # all (concrete value, condition) alternatives of a value made of const-leaf trees
            if isinstance(v, S.Term):
                lv = S.leaf_consts(v, 64)
                if lv is None:
                    raise Unsupported('too many alternatives for a map key')
                mk = (lambda x: S.boolc(x)) if v.sort == S.B else (lambda x: S.bv(x, v.sort))
                return [(mk(x), S.Eq(v, mk(x))) for x in sorted(lv)]
            if isinstance(v, tuple):
                alts = [((), S.TRUE)]
                for x in v:
                    alts = [(p + (y,), S.And(c, d)) for p, c in alts for y, d in expand(x)]
                return alts
            if isinstance(v, EnumV):
                out = []
                for t, ct in expand(v.tag):
                    p = v.payloads.get(S.cval(t), ())
                    if p is UNDEF:
                        continue
                    for pv, cp in expand(p):
                        out.append((EnumV(t, {S.cval(t): pv}), S.And(ct, cp)))
                return out
            raise Unsupported('map key component %r' % (v,))

        return [(k, c) for k, c in expand(key) if c is not S.FALSE]

    def dm_insert(self, ex, fr, c, a, st, pc):
        st = ex.shared('map.insert', a[0], st, pc)
        m = self._map(st, a[0])
        key, val = a[1], a[2]
        entries = list(m.entries)
        idx = {key_repr(e[0]): i for i, e in enumerate(entries)}
        old = UNDEF
        had = S.FALSE
        for k, ck in self.candidates(key):
            r = key_repr(k)
            if r in idx:
                i = idx[r]
                e = entries[i]
                old = merge(S.And(ck, e[1]), e[2], old)
                had = S.Or(had, S.And(ck, e[1]))
                entries[i] = (e[0], S.Or(ck, e[1]), merge(ck, val, e[2]))
            else:
                idx[r] = len(entries)
                entries.append((k, ck, val))
        self.wr(st, a[0], MapV(entries))
        if old is UNDEF:
            return none(), st, S.TRUE
        return option(had, old), st, S.TRUE

    def _lookup(self, m, key):
        idx = {key_repr(e[0]): e for e in m.entries}
        hit = S.FALSE
        val = UNDEF
        conds = []
        for k, ck in self.candidates(key):
            e = idx.get(key_repr(k))
            if e is None:
                continue
            h = S.And(ck, e[1])
            if h is S.FALSE:
                continue
            conds.append((key_repr(k), ck))
            val = merge(h, e[2], val)
            hit = S.Or(hit, h)
        return hit, val, conds

    def dm_remove(self, ex, fr, c, a, st, pc):
        st = ex.shared('map.remove', a[0], st, pc)
        m = self._map(st, a[0])
        key = self.rd(st, a[1])
        hit, val, conds = self._lookup(m, key)
        cd = dict(conds)
        new = []
        for e in m.entries:
            ck = cd.get(key_repr(e[0]))
            new.append(e if ck is None else (e[0], S.And(e[1], S.Not(ck)), e[2]))
        self.wr(st, a[0], MapV(new))
        if val is UNDEF:
            return none(), st, S.TRUE
        return option(hit, (key, val)), st, S.TRUE

    def dm_get(self, ex, fr, c, a, st, pc):
        st = ex.shared('map.get', a[0], st, pc)
        m = self._map(st, a[0])
        key = self.rd(st, a[1])
        hit, val, _ = self._lookup(m, key)
        if val is UNDEF:
            return none(), st, S.TRUE
        return option(hit, ('dmref', key, val)), st, S.TRUE

    def dm_len(self, ex, fr, c, a, st, pc):
        st = ex.shared('map.len', a[0], st, pc)
        m = self._map(st, a[0])
        return S.Sum([S.B2BV(e[1], 64) for e in m.entries], 64), st, S.TRUE

    def dm_is_empty(self, ex, fr, c, a, st, pc):
        st = ex.shared('map.len', a[0], st, pc)
        m = self._map(st, a[0])
        return S.Not(S.Or([e[1] for e in m.entries])), st, S.TRUE

    def dm_iter(self, ex, fr, c, a, st, pc):
        """iteration = one atomic snapshot of the map; order = first-insertion order of the keys,
        optionally composed with an arbitrary (symbolic) permutation since hash order is unspecified"""
        st = ex.shared('map.iter', a[0], st, pc)
        m = self._map(st, a[0])
        slots = [(e[1], e[0], e[2]) for e in m.entries if e[1] is not S.FALSE]
        n = len(slots)
        if self.map_iter_symbolic and n > 1:
            w = 8
            ps = [self.fresh_var('perm', w) for _ in range(n)]
            for i in range(n):
                self.assumptions.append(S.Ult(ps[i], S.bv(n, w)))
                for j in range(i):
                    self.assumptions.append(S.Not(S.Eq(ps[i], ps[j])))
            order = []
            for i in range(n):
                occ = S.FALSE
                item = UNDEF
                for j in reversed(range(n)):
                    cj = S.Eq(ps[i], S.bv(j, w))
                    occ = S.Ite(cj, slots[j][0], occ)
                    item = merge(cj, ('dmref', slots[j][1], slots[j][2]), item)
                order.append((occ, item))
        else:
            order = [(occ, ('dmref', k, v)) for occ, k, v in slots]
        cells = [UNDEF] * n
        cnt = S.bv(0, 64)
        for occ, item in order:
            for k in range(n):
                cells[k] = merge(S.And(occ, S.Eq(cnt, S.bv(k, 64))), item, cells[k])
            cnt = S.Ite(occ, S.Add(cnt, S.bv(1, 64)), cnt)
        return ('veciter', VecV(cells, cnt), S.bv(0, 64), 'val'), st, S.TRUE

    def dmref_value(self, ex, fr, c, a, st, pc):
        ref = a[0]
        if not isinstance(ref, RefV):
            # the guard itself was handed over by value (e.g. through Option::as_ref().map(..)): give it a home
            ref = RefV(ex.alloc(st, ref, 'dmref'), ())
        while isinstance(self.rd(st, ref), RefV):
            ref = self.rd(st, ref)
        r = self.rd(st, ref)
        if not (isinstance(r, tuple) and r and r[0] == 'dmref'):
            raise Unsupported('Ref::value on %r' % (r,))
        return RefV(ref.root, ref.path + (2,)), S.TRUE

    # ------------------------------------------------------------------ segqueue
    # FIFO as guarded append-only entries; an entry's id is its creation order in the unrolled
    # program, which is consistent with program order along every single path.
    def sq_push(self, ex, fr, c, a, st, pc):
        st = ex.shared('queue.push', a[0], st, pc)
        q = self.rd(st, a[0])
        if not isinstance(q, FifoV):
            raise Unsupported('not a fifo model: %r' % (q,))
        self.fresh += 1
        self.wr(st, a[0], FifoV(q.entries + ((self.fresh, S.TRUE, S.FALSE, a[1]),)))
        return UNIT, st, S.TRUE

    def sq_pop(self, ex, fr, c, a, st, pc):
        st = ex.shared('queue.pop', a[0], st, pc)
        q = self.rd(st, a[0])
        if not isinstance(q, FifoV):
            raise Unsupported('not a fifo model: %r' % (q,))
        none_before = S.TRUE
        val = UNDEF
        new = []
        firsts = []
        for eid, present, popped, v in q.entries:
            avail = S.And(present, S.Not(popped))
            first = S.And(avail, none_before)
            firsts.append((first, v))
            new.append((eid, present, S.Or(popped, first), v))
            none_before = S.And(none_before, S.Not(avail))
        for first, v in reversed(firsts):
            if first is not S.FALSE:
                val = merge(first, v, val)
        self.wr(st, a[0], FifoV(new))
        if val is UNDEF:
            return none(), st, S.TRUE
        return option(S.Not(none_before), val), st, S.TRUE

    # ------------------------------------------------------------------ vec / iterators
    def vec_push(self, ex, fr, c, a, st, pc):
        v = self.rd(st, a[0])
        if not isinstance(v, VecV):
            raise Unsupported('Vec::push on %r' % (v,))
        if S.is_const(v.length):
            k = S.cval(v.length)
            cells = v.cells[:k] + (a[1],)
            self.wr(st, a[0], VecV(cells, S.bv(k + 1, 64)))
            return UNIT, S.TRUE
        cells = list(v.cells)
        if len(cells) < self.vec_cap:
            cells.append(UNDEF)
        n = len(cells)
        self.capacity_event(ex, S.And(pc, S.Uge(v.length, S.bv(n, 64))), 'Vec', fr)
        for k in range(n):
            cells[k] = merge(S.Eq(v.length, S.bv(k, 64)), a[1], cells[k])
        self.wr(st, a[0], VecV(cells, S.Add(v.length, S.bv(1, 64))))
        return UNIT, S.TRUE

    def _next(self, ex, it, st, pc):
        """advance iterator value; returns (has, elem, new iterator, st)"""
        kind = it[0]
        if kind == 'veciter':
            _, vec, idx, mode = it
            has = S.Ult(idx, vec.length)
            if S.is_const(idx) and S.cval(idx) >= len(vec.cells):
                has = S.FALSE
            elem = select(vec.cells, idx) if has is not S.FALSE else UNDEF
            if elem is UNDEF:
                has = S.FALSE
            if mode == 'ref' and elem is not UNDEF:
                elem = RefV(ex.alloc(st, elem, 'elem'), ())
            nit = ('veciter', vec, S.Ite(has, S.Add(idx, S.bv(1, 64)), idx), mode)
            return has, elem, nit, st
        raise Unsupported('iterator kind %r' % (kind,))

    def iter_next(self, ex, fr, c, a, st, pc):
        it = self.rd(st, a[0])
        has, elem, nit, st = self._next(ex, it, st, pc)
        self.wr(st, a[0], nit)
        if elem is UNDEF:
            return none(), st, S.TRUE
        return option(has, elem), st, S.TRUE

    def _drain_map(self, ex, it, st, pc):
        """all (guard, mapped value) pairs of a Map<veciter, closure>; closures run from their MIR"""
        from .exec import merge_states
        if it[0] != 'mapiter':
            raise Unsupported('collect/sum on %r' % (it[0],))
        inner, cl = it[1], it[2]
        if inner[0] != 'veciter':
            raise Unsupported('map over %r' % (inner[0],))
        out = []
        live = S.TRUE
        cur = inner
        for _ in range(len(inner[1].cells) + 1):
            has, elem, cur, st = self._next(ex, cur, st, pc)
            if has is S.FALSE:
                break
            base = st
            rv, st2, l2 = ex.call_closure(cl, [elem], st.copy() if has is not S.TRUE else st, S.And(pc, has))
            if st2 is None:
                live = S.And(live, S.Not(has))
                continue
            if has is not S.TRUE:
                st = merge_states([(has, st2), (S.Not(has), base)])
            else:
                st = st2
            live = S.And(live, S.Or(S.Not(has), l2))
            out.append((has, rv))
        return out, st, live

    def map_collect(self, ex, fr, c, a, st, pc):
        items, st, live = self._drain_map(ex, a[0], st, pc)
        if 'BTreeMap' in c:
            # ordered map from (key, value) pairs: a later pair replaces an earlier one with an equal key, iteration is
            # in key order.  kept entries sorted to the front, the rest behind the length.
            keys, cells = [], []
            for i, (has, kv) in enumerate(items):
                if not (isinstance(kv, tuple) and len(kv) == 2):
                    raise Unsupported('BTreeMap from non-pair items')
                ki = self._flat_key(kv[0])
                later = S.Or([S.And(h2, S.And([S.Eq(x, y) for x, y in zip(ki, self._flat_key(kv2[0]))]))
                              for h2, kv2 in items[i + 1:]]) if i + 1 < len(items) else S.FALSE
                keep = S.And(has, S.Not(later))
                keys.append([S.Not(keep)] + ki)
                cells.append(kv)
            n = S.bv(0, 64)
            for k in keys:
                n = S.Add(n, S.B2BV(S.Not(k[0]), 64))
            self._bubble(cells, keys, self._lex_less)
            return ('btreemap', VecV(cells, n)), st, live
        # elements are a prefix (has_i is monotone for veciter), so cells are positional
        n = S.bv(0, 64)
        for has, _ in items:
            n = S.Add(n, S.B2BV(has, 64))
        return VecV([v for _, v in items], n), st, live

    def map_sum(self, ex, fr, c, a, st, pc):
        items, st, live = self._drain_map(ex, a[0], st, pc)
        w = 64
        for _, v in items:
            w = v.sort
        acc = S.bv(0, w)
        for has, v in items:
            ovf = S.And(has, S.AddOvf(acc, v))
            g = S.And(pc, live, ovf)
            if g is not S.FALSE:
                ex.panics.append((g, 'attempt to add with overflow (Iterator::sum)', fr.fn.name, -1))
            live = S.And(live, S.Not(ovf))
            acc = S.Ite(has, S.Add(acc, v), acc)
        return acc, st, live

    @staticmethod
    def _lex_less(x, y):
        r = S.FALSE
        for p_, q_ in reversed(list(zip(x, y))):
            if p_.sort == S.B:
                lt, eq = S.And(S.Not(p_), q_), S.Eq(p_, q_)
            else:
                lt, eq = S.Ult(p_, q_), S.Eq(p_, q_)
            r = S.Or(lt, S.And(eq, r))
        return r

    @staticmethod
    def _flat_key(k):
        if isinstance(k, S.Term):
            return [k]
        if isinstance(k, tuple):
            out = []
            for x in k:
                out += Models._flat_key(x)
            return out
        raise Unsupported('sort key %r' % (k,))

    @staticmethod
    def _bubble(cells, keys, less):
        """in-place stable bubble network over cells with parallel key lists"""
        n = len(cells)
        for rnd in range(n):
            for i in range(n - 1 - rnd):
                if cells[i] is UNDEF or cells[i + 1] is UNDEF:
                    continue
                sw = less(keys[i + 1], keys[i])
                if sw is S.FALSE:
                    continue
                x, y = cells[i], cells[i + 1]
                cells[i], cells[i + 1] = merge(sw, y, x), merge(sw, x, y)
                kx, ky = keys[i], keys[i + 1]
                keys[i] = [S.Ite(sw, q_, p_) for p_, q_ in zip(kx, ky)]
                keys[i + 1] = [S.Ite(sw, p_, q_) for p_, q_ in zip(kx, ky)]

    def sort_by_key(self, ex, fr, c, a, st, pc):
        """stable sort of a Vec with symbolic length: bubble network, swap only when strictly greater;
        keys may be integers or tuples of integers (lexicographic)"""
        v = self.rd(st, a[0])
        if not isinstance(v, VecV):
            raise Unsupported('sort_by_key on %r' % (v,))
        cells = list(v.cells)
        n = len(cells)

        def flat(k):
            if isinstance(k, S.Term):
                return [k]
            if isinstance(k, tuple):
                out = []
                for x in k:
                    out += flat(x)
                return out
            raise Unsupported('sort key %r' % (k,))

        def less(x, y):
            # lexicographic x < y
            r = S.FALSE
            for p_, q_ in reversed(list(zip(x, y))):
                if p_.sort == S.B:
                    lt, eq = S.And(S.Not(p_), q_), S.Eq(p_, q_)
                else:
                    lt, eq = S.Ult(p_, q_), S.Eq(p_, q_)
                r = S.Or(lt, S.And(eq, r))
            return r
        keys = []
        for i in range(n):
            if cells[i] is UNDEF:
                keys.append(UNDEF)
                continue
            ref = RefV(ex.alloc(st, cells[i], 'sortelem'), ())
            k, st2, l2 = ex.call_closure(a[1], [ref], st, pc)
            if st2 is None:
                raise Unsupported('sort key closure diverges')
            st = st2
            valid = S.Ult(S.bv(i, 64), v.length)
            # leading component: invalid (beyond length) elements sort last
            keys.append([S.Not(valid)] + flat(k))
        self._bubble(cells, keys, less)
        self.wr(st, a[0], VecV(cells, v.length))
        return UNIT, st, S.TRUE

    # ------------------------------------------------------------------ time / uuid
    def time_now(self, ex, fr, c, a, st, pc):
        v = self.fresh_var('clock_ms', 64)
        self.clock_vars.append(v)
        return ('systime', v), S.TRUE

    def result_unwrap(self, ex, fr, c, a, st, pc):
        r = a[0]
        if not isinstance(r, EnumV) or not S.is_const(r.tag) or S.cval(r.tag) != 0:
            raise Unsupported('Result unwrap on non-Ok model value')
        return r.payloads[0][0], S.TRUE

    def uuid_v5(self, ex, fr, c, a, st, pc):
        ns = self.rd(st, a[0])
        name = a[1]
        if isinstance(name, RefV):
            name = self.rd(st, name)
        if not (isinstance(name, tuple) and name[0] == 'decstr'):
            raise Unsupported('new_v5 on a name that is not a decimal counter string')
        app = S.UF('V5', [ns, name[1]], 128)
        self.v5_apps.append((ns, name[1], app))
        return app, S.TRUE
