"""Hash-consed SMT term layer (QF_UFBV) with aggressive local simplification.

Sorts: 'B' (Bool) or an int n (BitVec n).  Terms are immutable and interned, so
`a is b` is structural equality.  Concrete computations fold to constants, which
lets the same executor serve as a concrete interpreter (replay / repo vectors).
"""
import sys

sys.setrecursionlimit(1000000)

B = 'B'


class Term(object):
    __slots__ = ('op', 'args', 'sort', 'tid', 'cl')

    def __repr__(self):
        return to_str(self, 4)

    def __bool__(self):
        raise TypeError("Term used as python bool: %r" % (self,))


_table = {}
_next = [0]


def _mk(op, args, sort):
    key = (op, sort) + tuple((a.tid if isinstance(a, Term) else ('#', a)) for a in args)
    t = _table.get(key)
    if t is None:
        t = Term.__new__(Term)
        t.op = op
        t.args = args
        t.sort = sort
        t.tid = _next[0]
        _next[0] += 1
        if op == 'const':
            t.cl = True
        elif op == 'ite':
            t.cl = args[1].cl and args[2].cl
        else:
            t.cl = False
        _table[key] = t
    return t


def stats():
    return _next[0]


TRUE = _mk('const', (True,), B)
FALSE = _mk('const', (False,), B)


def boolc(v):
    return TRUE if v else FALSE


def bv(v, w):
    return _mk('const', (int(v) & ((1 << w) - 1),), w)


def var(name, sort):
    return _mk('var', (name,), sort)


def is_const(t):
    return t.op == 'const'


def cval(t):
    return t.args[0]


def is_true(t):
    return t is TRUE


def is_false(t):
    return t is FALSE


def _mask(w):
    return (1 << w) - 1


def _signed(v, w):
    return v - (1 << w) if v >> (w - 1) else v


# ---------------------------------------------------------------- booleans

def Not(a):
    assert a.sort == B
    if a is TRUE:
        return FALSE
    if a is FALSE:
        return TRUE
    if a.op == 'not':
        return a.args[0]
    return _mk('not', (a,), B)


def _flatten(op, xs, out):
    for x in xs:
        if x.op == op:
            _flatten(op, x.args, out)
        else:
            out.append(x)


def And(*xs):
    if len(xs) == 1 and isinstance(xs[0], (list, tuple)):
        xs = xs[0]
    flat = []
    _flatten('and', xs, flat)
    seen = {}
    for x in flat:
        assert x.sort == B, x
        if x is FALSE:
            return FALSE
        if x is TRUE:
            continue
        seen[x.tid] = x
    for x in seen.values():
        if x.op == 'not' and x.args[0].tid in seen:
            return FALSE
    if not seen:
        return TRUE
    if len(seen) == 1:
        return next(iter(seen.values()))
    args = tuple(seen[k] for k in sorted(seen))
    return _mk('and', args, B)


def Or(*xs):
    if len(xs) == 1 and isinstance(xs[0], (list, tuple)):
        xs = xs[0]
    flat = []
    _flatten('or', xs, flat)
    seen = {}
    for x in flat:
        assert x.sort == B, x
        if x is TRUE:
            return TRUE
        if x is FALSE:
            continue
        seen[x.tid] = x
    for x in seen.values():
        if x.op == 'not' and x.args[0].tid in seen:
            return TRUE
    if not seen:
        return FALSE
    if len(seen) == 1:
        return next(iter(seen.values()))
    args = tuple(seen[k] for k in sorted(seen))
    return _mk('or', args, B)


def Implies(a, b):
    return Or(Not(a), b)


def Iff(a, b):
    return Eq(a, b)


def Xor(a, b):
    return Not(Eq(a, b))


def Ite(c, a, b):
    assert c.sort == B, c
    assert a.sort == b.sort, (a.sort, b.sort, a, b)
    if c is TRUE:
        return a
    if c is FALSE:
        return b
    if a is b:
        return a
    if c.op == 'not':
        return Ite(c.args[0], b, a)
    if a.sort == B:
        if a is TRUE and b is FALSE:
            return c
        if a is FALSE and b is TRUE:
            return Not(c)
        if a is TRUE:
            return Or(c, b)
        if a is FALSE:
            return And(Not(c), b)
        if b is TRUE:
            return Or(Not(c), a)
        if b is FALSE:
            return And(c, a)
    if b.op == 'ite' and b.args[0] is c:
        return Ite(c, a, b.args[2])
    if a.op == 'ite' and a.args[0] is c:
        return Ite(c, a.args[1], b)
    # ite(c, x, ite(d, x, y)) -> ite(c or d, x, y)
    if b.op == 'ite' and b.args[1] is a:
        return Ite(Or(c, b.args[0]), a, b.args[2])
    return _mk('ite', (c, a, b), a.sort)


def _dist_cmp(f, a, k, swap=False, memo=None):
    """distribute comparison with constant k over a const-leaf ite DAG a (memoised per call)"""
    if memo is None:
        memo = {}
    r = memo.get(a.tid)
    if r is not None:
        return r
    if a.op == 'const':
        r = f(k, a) if swap else f(a, k)
    else:
        c, x, y = a.args
        r = Ite(c, _dist_cmp(f, x, k, swap, memo), _dist_cmp(f, y, k, swap, memo))
    memo[a.tid] = r
    return r


def _map_cl(f, a, memo=None):
    """apply unary f to the leaves of a const-leaf ite DAG"""
    if memo is None:
        memo = {}
    r = memo.get(a.tid)
    if r is not None:
        return r
    if a.op == 'const':
        r = f(a)
    else:
        r = Ite(a.args[0], _map_cl(f, a.args[1], memo), _map_cl(f, a.args[2], memo))
    memo[a.tid] = r
    return r


def Eq(a, b):
    assert a.sort == b.sort, (a.sort, b.sort, a, b)
    if a is b:
        return TRUE
    if a.op == 'const' and b.op == 'const':
        return boolc(a.args[0] == b.args[0])
    if a.sort == B:
        if a is TRUE:
            return b
        if b is TRUE:
            return a
        if a is FALSE:
            return Not(b)
        if b is FALSE:
            return Not(a)
        if a.op == 'not' and a.args[0] is b:
            return FALSE
        if b.op == 'not' and b.args[0] is a:
            return FALSE
    else:
        if b.op == 'const' and a.cl:
            return _dist_cmp(Eq, a, b)
        if a.op == 'const' and b.cl:
            return _dist_cmp(Eq, b, a)
        if a.cl and b.cl:
            r = _cl_binop(Eq, a, b)
            if r is not None:
                return r
    if a.tid > b.tid:
        a, b = b, a
    return _mk('=', (a, b), B)


def Ne(a, b):
    return Not(Eq(a, b))


# ---------------------------------------------------------------- bit-vectors

def _bin(op, a, b, f, comm=False):
    assert a.sort == b.sort and a.sort != B, (op, a.sort, b.sort, a, b)
    w = a.sort
    if a.op == 'const' and b.op == 'const':
        return bv(f(a.args[0], b.args[0], w), w)
    if comm and a.tid > b.tid:
        a, b = b, a
    return _mk(op, (a, b), w)


CL_LIMIT = 48


def _cl_small(t):
    """const-leaf ite DAG with few distinct leaves (pointer-/counter-like value)"""
    if t.op != 'ite' or not t.cl:
        return False
    lv = leaf_consts(t, CL_LIMIT)
    return lv is not None


def _cl_binop(f, a, b):
    """push a binary op into const-leaf ite DAGs so that counters stay ite-trees over constants"""
    if a.op == 'const' and _cl_small(b):
        return _map_cl(lambda x: f(a, x), b)
    if b.op == 'const' and _cl_small(a):
        return _map_cl(lambda x: f(x, b), a)
    if a.op == 'ite' and b.op == 'ite' and a.cl and b.cl:
        la = leaf_consts(a, CL_LIMIT)
        lb = leaf_consts(b, CL_LIMIT)
        if la is not None and lb is not None and len(la) * len(lb) <= CL_LIMIT:
            return _map_cl(lambda x: _map_cl(lambda y: f(x, y), b), a)
    return None


def Add(a, b):
    if a.op == 'const' and a.args[0] == 0:
        return b
    if b.op == 'const' and b.args[0] == 0:
        return a
    r = _cl_binop(Add, a, b)
    if r is not None:
        return r
    return _bin('bvadd', a, b, lambda x, y, w: x + y, True)


def Sub(a, b):
    if b.op == 'const' and b.args[0] == 0:
        return a
    if a is b:
        return bv(0, a.sort)
    r = _cl_binop(Sub, a, b)
    if r is not None:
        return r
    return _bin('bvsub', a, b, lambda x, y, w: x - y)


def Mul(a, b):
    for x, y in ((a, b), (b, a)):
        if x.op == 'const':
            if x.args[0] == 0:
                return bv(0, a.sort)
            if x.args[0] == 1:
                return y
    for x, y in ((a, b), (b, a)):
        if x.op != 'const' and _cl_small(y):
            return _map_cl(lambda k: Mul(x, k), y)
    return _bin('bvmul', a, b, lambda x, y, w: x * y, True)


def UDiv(a, b):
    return _bin('bvudiv', a, b, lambda x, y, w: (x // y) if y else _mask(w))


def URem(a, b):
    return _bin('bvurem', a, b, lambda x, y, w: (x % y) if y else x)


def BvAnd(a, b):
    return _bin('bvand', a, b, lambda x, y, w: x & y, True)


def BvOr(a, b):
    return _bin('bvor', a, b, lambda x, y, w: x | y, True)


def BvXor(a, b):
    return _bin('bvxor', a, b, lambda x, y, w: x ^ y, True)


def BvNot(a):
    if a.op == 'const':
        return bv(~a.args[0], a.sort)
    return _mk('bvnot', (a,), a.sort)


def Neg(a):
    if a.op == 'const':
        return bv(-a.args[0], a.sort)
    return _mk('bvneg', (a,), a.sort)


def Shl(a, b):
    return _bin('bvshl', a, b, lambda x, y, w: (x << y) if y < w else 0)


def LShr(a, b):
    return _bin('bvlshr', a, b, lambda x, y, w: (x >> y) if y < w else 0)


def AShr(a, b):
    return _bin('bvashr', a, b, lambda x, y, w: (_signed(x, w) >> min(y, w - 1)))


def _cmp(op, a, b, f):
    assert a.sort == b.sort and a.sort != B, (op, a.sort, b.sort, a, b)
    if a.op == 'const' and b.op == 'const':
        return boolc(f(a.args[0], b.args[0], a.sort))
    return None


def Ult(a, b):
    r = _cmp('bvult', a, b, lambda x, y, w: x < y)
    if r is not None:
        return r
    if a is b:
        return FALSE
    if b.op == 'const' and b.args[0] == 0:
        return FALSE
    if a.op == 'const' and a.args[0] == _mask(a.sort):
        return FALSE
    if b.op == 'const' and a.cl:
        return _dist_cmp(Ult, a, b)
    if a.op == 'const' and b.cl:
        return _dist_cmp(Ult, b, a, True)
    if a.cl and b.cl:
        r = _cl_binop(Ult, a, b)
        if r is not None:
            return r
    if a.op == 'const' and a.args[0] == 0:
        return Not(Eq(b, a))
    if b.op == 'const' and b.args[0] == 1:
        return Eq(a, bv(0, a.sort))
    return _mk('bvult', (a, b), B)


def Ule(a, b):
    return Not(Ult(b, a))


def Ugt(a, b):
    return Ult(b, a)


def Uge(a, b):
    return Not(Ult(a, b))


def Slt(a, b):
    r = _cmp('bvslt', a, b, lambda x, y, w: _signed(x, w) < _signed(y, w))
    if r is not None:
        return r
    if a is b:
        return FALSE
    return _mk('bvslt', (a, b), B)


def Sle(a, b):
    return Not(Slt(b, a))


def Sgt(a, b):
    return Slt(b, a)


def Sge(a, b):
    return Not(Slt(a, b))


def ZExt(a, w):
    assert a.sort != B
    if w == a.sort:
        return a
    assert w > a.sort, (w, a.sort)
    if a.op == 'const':
        return bv(a.args[0], w)
    if a.op == 'ite' and a.cl:
        return _map_cl(lambda x: ZExt(x, w), a)
    return _mk('zext', (w - a.sort, a), w)


def SExt(a, w):
    if w == a.sort:
        return a
    assert w > a.sort
    if a.op == 'const':
        return bv(_signed(a.args[0], a.sort), w)
    return _mk('sext', (w - a.sort, a), w)


def Extract(hi, lo, a):
    w = hi - lo + 1
    if lo == 0 and w == a.sort:
        return a
    if a.op == 'const':
        return bv(a.args[0] >> lo, w)
    if a.op == 'zext' and hi < a.args[1].sort:
        return Extract(hi, lo, a.args[1])
    if a.op == 'ite' and a.cl:
        return _map_cl(lambda x: Extract(hi, lo, x), a)
    return _mk('extract', (hi, lo, a), w)


def Concat(a, b):
    if a.op == 'const' and b.op == 'const':
        return bv((a.args[0] << b.sort) | b.args[0], a.sort + b.sort)
    return _mk('concat', (a, b), a.sort + b.sort)


def Resize(a, w, signed=False):
    """integer cast a -> width w"""
    if a.sort == B:
        a = Ite(a, bv(1, 8), bv(0, 8))
    if w == a.sort:
        return a
    if w < a.sort:
        return Extract(w - 1, 0, a)
    return SExt(a, w) if signed else ZExt(a, w)


def leaf_consts(t, limit=256):
    """set of constant leaves of a const-leaf ite tree, or None"""
    if not t.cl:
        return None
    out = set()
    stack = [t]
    seen = set()
    while stack:
        x = stack.pop()
        if x.tid in seen:
            continue
        seen.add(x.tid)
        if x.op == 'const':
            out.add(x.args[0])
            if len(out) > limit:
                return None
        else:
            stack.append(x.args[1])
            stack.append(x.args[2])
    return out


def B2BV(c, w):
    return Ite(c, bv(1, w), bv(0, w))


def UF(name, args, sort):
    """uninterpreted function application; signature fixed by first use"""
    return _mk('uf', (name,) + tuple(args), sort)


def Umin(a, b):
    return Ite(Ult(b, a), b, a)


def Umax(a, b):
    return Ite(Ult(a, b), b, a)


def AddOvf(a, b):
    """unsigned add overflow flag"""
    w = a.sort
    if a.op == 'const' and b.op == 'const':
        return boolc(a.args[0] + b.args[0] > _mask(w))
    if (a.op == 'const' and a.args[0] == 0) or (b.op == 'const' and b.args[0] == 0):
        return FALSE
    if a.tid > b.tid:
        a, b = b, a
    return _mk('addovf', (a, b), B)


def SubOvf(a, b):
    return Ult(a, b)


def MulOvf(a, b):
    w = a.sort
    if a.op == 'const' and b.op == 'const':
        return boolc(a.args[0] * b.args[0] > _mask(w))
    for x in (a, b):
        if x.op == 'const' and x.args[0] in (0, 1):
            return FALSE
    for x, y in ((a, b), (b, a)):
        if x.op == 'const':
            return Ult(bv(_mask(w) // x.args[0], w), y)
    for x, y in ((a, b), (b, a)):
        if x.op != 'const' and _cl_small(y):
            return _map_cl(lambda k: MulOvf(x, k), y)
    wide = Mul(ZExt(a, 2 * w), ZExt(b, 2 * w))
    return Not(Eq(Extract(2 * w - 1, w, wide), bv(0, w)))


def Sum(xs, w):
    r = bv(0, w)
    for x in xs:
        r = Add(r, x)
    return r


# ---------------------------------------------------------------- traversal

def postorder(roots):
    """iterative post-order over the DAG below roots (each node once)"""
    seen = set()
    out = []
    stack = []
    for r in roots:
        if r.tid in seen:
            continue
        stack.append((r, False))
        while stack:
            t, done = stack.pop()
            if done:
                out.append(t)
                continue
            if t.tid in seen:
                continue
            seen.add(t.tid)
            stack.append((t, True))
            for a in t.args:
                if isinstance(a, Term) and a.tid not in seen:
                    stack.append((a, False))
    return out


def variables(roots):
    return [t for t in postorder(roots) if t.op == 'var']


def size(roots):
    return len(postorder(roots))


def sort_str(s):
    return 'Bool' if s == B else '(_ BitVec %d)' % s


def const_str(t):
    v = t.args[0]
    if t.sort == B:
        return 'true' if v else 'false'
    w = t.sort
    if w % 4 == 0:
        return '#x' + ('%0' + str(w // 4) + 'x') % v
    return '#b' + bin(v)[2:].zfill(w)


_SMTOP = {'=': '=', 'not': 'not', 'and': 'and', 'or': 'or', 'ite': 'ite'}


def node_str(t, name):
    """SMT-LIB text of node t, children referenced through name(child)"""
    op = t.op
    if op == 'const':
        return const_str(t)
    if op == 'var':
        return t.args[0]
    if op == 'zext':
        return '((_ zero_extend %d) %s)' % (t.args[0], name(t.args[1]))
    if op == 'sext':
        return '((_ sign_extend %d) %s)' % (t.args[0], name(t.args[1]))
    if op == 'extract':
        return '((_ extract %d %d) %s)' % (t.args[0], t.args[1], name(t.args[2]))
    if op == 'uf':
        if len(t.args) == 1:
            return t.args[0]
        return '(%s %s)' % (t.args[0], ' '.join(name(a) for a in t.args[1:]))
    if op == 'addovf':
        return '(bvult (bvadd %s %s) %s)' % (name(t.args[0]), name(t.args[1]), name(t.args[0]))
    return '(%s %s)' % (op, ' '.join(name(a) for a in t.args))


class IntModeUnsupported(Exception):
    pass


def node_str_int(t, name):
    """integer-semantics rendering: a BitVec(w) term is an Int in [0, 2^w)"""
    op = t.op
    a = t.args
    if op == 'const':
        if t.sort == B:
            return 'true' if a[0] else 'false'
        return str(a[0])
    if op == 'var':
        return a[0]
    if op in ('not', 'and', 'or', 'ite', '='):
        return '(%s %s)' % (op, ' '.join(name(x) for x in a))
    if op == 'bvadd':
        m = 1 << t.sort
        return '(let ((s (+ %s %s))) (ite (>= s %d) (- s %d) s))' % (name(a[0]), name(a[1]), m, m)
    if op == 'bvsub':
        m = 1 << t.sort
        return '(let ((s (- %s %s))) (ite (< s 0) (+ s %d) s))' % (name(a[0]), name(a[1]), m)
    if op == 'addovf':
        return '(>= (+ %s %s) %d)' % (name(a[0]), name(a[1]), 1 << a[0].sort)
    if op == 'bvult':
        return '(< %s %s)' % (name(a[0]), name(a[1]))
    if op == 'zext':
        return name(a[1])
    if op == 'bvmul' and (a[0].op == 'const' or a[1].op == 'const'):
        k, x = (a[0], a[1]) if a[0].op == 'const' else (a[1], a[0])
        cst = k.args[0]
        m = 1 << t.sort
        if cst <= 16:
            # c*x wraps at most c-1 times: a linear ite chain instead of `mod`
            body = '(- p %d)' % ((cst - 1) * m)
            for j in range(cst - 2, -1, -1):
                body = '(ite (< p %d) %s %s)' % ((j + 1) * m, 'p' if j == 0 else '(- p %d)' % (j * m), body)
            return '(let ((p (* %d %s))) %s)' % (cst, name(x), body)
        return '(mod (* %s %s) %d)' % (name(a[0]), name(a[1]), m)
    if op == 'bvneg':
        return '(mod (- %s) %d)' % (name(a[0]), 1 << t.sort)
    if op == 'uf':
        if len(a) == 1:
            return a[0]
        return '(%s %s)' % (a[0], ' '.join(name(x) for x in a[1:]))
    raise IntModeUnsupported(op)


def to_str(t, depth=3):
    if t.op in ('const', 'var'):
        return node_str(t, None)
    if depth == 0:
        return '..'
    return node_str(t, lambda a: to_str(a, depth - 1))


def to_smt2(assertions, extra_decls=(), int_mode=False):
    """Returns (lines, names, vars).  Every shared node becomes a 0-ary define-fun.
    int_mode: render bit-vectors as integers in [0,2^w) with explicit wrap-around (raises
    IntModeUnsupported when a bit-level operator occurs)."""
    order = postorder(assertions)
    sstr = (lambda so: 'Bool' if so == B else 'Int') if int_mode else sort_str
    nstr = node_str_int if int_mode else node_str
    uses = {}
    for t in order:
        for a in t.args:
            if isinstance(a, Term):
                uses[a.tid] = uses.get(a.tid, 0) + 1
    lines = []
    names = {}
    vars_ = []
    ufs = {}
    for t in order:
        if t.op == 'var':
            vars_.append(t)
            lines.append('(declare-fun %s () %s)' % (t.args[0], sstr(t.sort)))
            if int_mode and t.sort != B:
                lines.append('(assert (and (<= 0 %s) (< %s %d)))' % (t.args[0], t.args[0], 1 << t.sort))
            names[t.tid] = t.args[0]
        elif t.op == 'uf':
            sig = (tuple(a.sort for a in t.args[1:]), t.sort)
            if t.args[0] not in ufs:
                ufs[t.args[0]] = sig
                lines.append('(declare-fun %s (%s) %s)' % (
                    t.args[0], ' '.join(sstr(s) for s in sig[0]), sstr(sig[1])))
            else:
                assert ufs[t.args[0]] == sig, ('uf signature clash', t.args[0])
    for d in extra_decls:
        lines.append(d)

    def nm(a):
        return names[a.tid]

    for t in order:
        if t.op == 'var':
            continue
        if t.op == 'const':
            names[t.tid] = nstr(t, None) if int_mode else const_str(t)
            continue
        s = nstr(t, nm)
        if uses.get(t.tid, 0) > 1 or len(s) > 200:
            n = 't%d' % t.tid
            lines.append('(define-fun %s () %s %s)' % (n, sstr(t.sort), s))
            names[t.tid] = n
        else:
            names[t.tid] = s
    return lines, names, vars_


# ---------------------------------------------------------------- evaluation

def evaluate(roots, env, uf_eval=None):
    """Concrete evaluation under env: var name -> int/bool.  Returns list of values.
    Unknown variables default to 0/False (solver may omit don't-cares)."""
    val = {}
    for t in postorder(roots):
        op = t.op
        a = t.args
        if op == 'const':
            v = a[0]
        elif op == 'var':
            v = env.get(a[0], False if t.sort == B else 0)
        elif op == 'not':
            v = not val[a[0].tid]
        elif op == 'and':
            v = all(val[x.tid] for x in a)
        elif op == 'or':
            v = any(val[x.tid] for x in a)
        elif op == 'ite':
            v = val[a[1].tid] if val[a[0].tid] else val[a[2].tid]
        elif op == '=':
            v = val[a[0].tid] == val[a[1].tid]
        elif op == 'zext':
            v = val[a[1].tid]
        elif op == 'sext':
            v = _signed(val[a[1].tid], a[1].sort) & _mask(t.sort)
        elif op == 'extract':
            v = (val[a[2].tid] >> a[1]) & _mask(t.sort)
        elif op == 'concat':
            v = (val[a[0].tid] << a[1].sort) | val[a[1].tid]
        elif op == 'uf':
            args = tuple(val[x.tid] for x in a[1:])
            v = uf_eval(a[0], args, t.sort) if uf_eval else ('uf', a[0]) + args
        else:
            x = val[a[0].tid]
            w = a[0].sort
            if op == 'bvnot':
                v = ~x & _mask(w)
            elif op == 'bvneg':
                v = -x & _mask(w)
            else:
                y = val[a[1].tid]
                if op == 'addovf':
                    v = (x + y) > _mask(w)
                elif op == 'bvadd':
                    v = (x + y) & _mask(w)
                elif op == 'bvsub':
                    v = (x - y) & _mask(w)
                elif op == 'bvmul':
                    v = (x * y) & _mask(w)
                elif op == 'bvudiv':
                    v = (x // y) if y else _mask(w)
                elif op == 'bvurem':
                    v = (x % y) if y else x
                elif op == 'bvand':
                    v = x & y
                elif op == 'bvor':
                    v = x | y
                elif op == 'bvxor':
                    v = x ^ y
                elif op == 'bvshl':
                    v = (x << y) & _mask(w) if y < w else 0
                elif op == 'bvlshr':
                    v = (x >> y) if y < w else 0
                elif op == 'bvashr':
                    v = (_signed(x, w) >> min(y, w - 1)) & _mask(w)
                elif op == 'bvult':
                    v = x < y
                elif op == 'bvslt':
                    v = _signed(x, w) < _signed(y, w)
                else:
                    raise ValueError('evaluate: unknown op ' + op)
        val[t.tid] = v
    return [val[r.tid] for r in roots]
