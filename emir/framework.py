"""Check driver: parallel cubes, native replay, known findings, evidence, exit codes.

Exit codes: 0 = every obligation unsat, every witness sat and natively reproduced
            1 = a counterexample outside known_findings.json that reproduces natively
            2 = inconclusive (unsupported construct, solver unknown/timeout/error, engine or
                replay disagreement, vacuous witness)
"""
import os, sys, json, time, hashlib, subprocess, traceback, multiprocessing, random

VERIF = os.path.dirname(os.path.dirname(os.path.abspath(__file__)))
REPO = os.environ.get('VERIF_REPO', '/repo')
CACHE = os.path.join(VERIF, '.cache')
NATIVE_TARGET = os.path.join(CACHE, 'native-target')


# ------------------------------------------------------------------ native driver

_native_bin = {}


def build_native(profile='dev', cfg_hooks=False):
    key = (profile, cfg_hooks)
    if key in _native_bin:
        return _native_bin[key]
    src = os.path.join(VERIF, 'native')
    # keep the lock file in step with the repository's
    try:
        lock = open(os.path.join(REPO, 'Cargo.lock')).read()
        cur = open(os.path.join(src, 'Cargo.lock')).read() if os.path.exists(os.path.join(src, 'Cargo.lock')) else ''
        if lock != cur:
            open(os.path.join(src, 'Cargo.lock'), 'w').write(lock)
    except IOError:
        pass
    env = dict(os.environ)
    env['CARGO_NET_OFFLINE'] = 'true'
    tdir = NATIVE_TARGET + ('-hooks' if cfg_hooks else '')
    if cfg_hooks:
        env['RUSTFLAGS'] = (env.get('RUSTFLAGS', '') + ' --cfg pricelevel_verif').strip()
    cmd = ['cargo', 'build', '--offline', '--manifest-path', os.path.join(src, 'Cargo.toml'), '--target-dir', tdir]
    if profile == 'release':
        cmd.append('--release')
    p = subprocess.run(cmd, env=env, stdout=subprocess.PIPE, stderr=subprocess.STDOUT, universal_newlines=True)
    if p.returncode != 0:
        raise RuntimeError('native driver build failed:\n' + p.stdout[-3000:])
    b = os.path.join(tdir, 'release' if profile == 'release' else 'debug', 'pl-native')
    _native_bin[key] = b
    return b


def run_native(script, profile='dev', timeout=60, cfg_hooks=False):
    b = build_native(profile, cfg_hooks)
    os.makedirs(os.path.join(CACHE, 'scripts'), exist_ok=True)
    text = json.dumps(script)
    path = os.path.join(CACHE, 'scripts', 's-%s-%d.json' % (hashlib.sha1(text.encode()).hexdigest()[:12], os.getpid()))
    with open(path, 'w') as f:
        f.write(text)
    try:
        p = subprocess.run([b, path], stdout=subprocess.PIPE, stderr=subprocess.PIPE, universal_newlines=True,
                           timeout=timeout)
    except subprocess.TimeoutExpired:
        return {'results': [{'timeout': True, 'whole_process': True}]}
    finally:
        try:
            os.unlink(path)
        except OSError:
            pass
    if p.returncode != 0 or not p.stdout.strip():
        return {'error': 'driver rc=%d stderr=%s' % (p.returncode, p.stderr[-500:])}
    return json.loads(p.stdout.strip().split('\n')[-1])


# ------------------------------------------------------------------ parallel map (fork)

def _worker(args):
    idx, fn, fargs = args
    try:
        from .exec import run_with_big_stack
        return idx, run_with_big_stack(fn, *fargs), None
    except BaseException as e:  # noqa
        tb = traceback.format_exc().strip().split('\n')
        where = [l.strip() for l in tb if l.strip().startswith('File ')][-3:]
        return idx, None, '%s: %s [%s]' % (type(e).__name__, str(e)[:600], ' <- '.join(reversed(where))[:400])


def parallel_map(tasks, jobs=None):
    """tasks: list of (fn, args).  Returns list of (result, error) in order."""
    jobs = jobs or int(os.environ.get('VERIF_JOBS', '16'))
    out = [None] * len(tasks)
    if jobs <= 1 or len(tasks) <= 1:
        for i, (fn, a) in enumerate(tasks):
            _, r, e = _worker((i, fn, a))
            out[i] = (r, e)
        return out
    ctx = multiprocessing.get_context('fork')
    with ctx.Pool(min(jobs, len(tasks)), maxtasksperchild=8) as pool:
        for idx, r, e in pool.imap_unordered(_worker, [(i, fn, a) for i, (fn, a) in enumerate(tasks)]):
            out[idx] = (r, e)
    return out


# ------------------------------------------------------------------ known findings

def load_known(pid):
    p = os.path.join(VERIF, 'known_findings.json')
    if not os.path.exists(p):
        return [], []
    d = json.load(open(p))
    return ([f for f in d.get('findings', []) if f['property'] == pid],
            [f for f in d.get('fixed', []) if f['property'] == pid])


# ------------------------------------------------------------------ the run object

class Run(object):
    def __init__(self, pid, tier, seed):
        self.pid = pid
        self.tier = tier
        self.seed = seed
        self.t0 = time.time()
        self.obligations = 0
        self.discharged = 0
        self.witnesses = 0
        self.witness_sat = 0
        self.replayed = 0
        self.replay_ok = 0
        self.violations = []
        self.inconclusive = []
        self.known_seen = {}
        self.samples = []
        self.assumptions = []
        self.bounds = {}
        self.functions = {}
        self.models_used = {}
        self.solver_time = 0.0
        self.solver_queries = 0
        self.solver_log = []
        self.symex = {'blocks': 0, 'statements': 0, 'calls_inlined': 0, 'merges': 0, 'model_calls': 0}
        self.cubes = 0
        self.notes = []
        self.extra = {}
        self.rng = random.Random(seed)

    def note(self, s):
        self.notes.append(s)
        print('[%s] %s' % (self.pid, s), flush=True)

    def inconclusive_(self, why):
        self.inconclusive.append(why)
        print('INCONCLUSIVE property=%s %s' % (self.pid, why[:2000]), flush=True)

    def absorb_stats(self, st):
        """merge per-cube statistics returned by a worker"""
        self.cubes += 1
        for k in self.symex:
            self.symex[k] += st.get('symex', {}).get(k, 0)
        for f in st.get('functions', []):
            self.functions[f['fn']] = f
        for k, v in st.get('models_used', {}).items():
            self.models_used[k] = self.models_used.get(k, 0) + v
        self.solver_time += st.get('solver_time', 0.0)
        self.solver_queries += st.get('solver_queries', 0)
        if len(self.solver_log) < 40:
            self.solver_log.extend(st.get('solver_log', [])[:4])

    def write_replay(self, name, payload):
        d = os.path.join(VERIF, 'replays')
        os.makedirs(d, exist_ok=True)
        text = json.dumps(payload, indent=1, sort_keys=True)
        h = hashlib.sha1(text.encode()).hexdigest()[:10]
        path = os.path.join(d, '%s-%s-%s.json' % (self.pid, name.replace('/', '_').replace(' ', '_')[:40], h))
        with open(path, 'w') as f:
            f.write(text)
        return path

    def violation(self, name, payload):
        path = self.write_replay(name, payload)
        self.violations.append((name, path))
        print('VIOLATION property=%s replay=%s' % (self.pid, path), flush=True)

    def known(self, key, what):
        if key not in self.known_seen:
            self.known_seen[key] = what
            print('KNOWN-FINDING: property=%s %s %s' % (self.pid, key, what), flush=True)

    def finish(self, level='model_checking', rule='', explanation='', trusted=None):
        wall = time.time() - self.t0
        distinct_nontrivial = self.witness_sat
        cov = {
            'states': max(1, self.symex['blocks']),
            'transitions': max(1, self.symex['statements']),
            'traces_validated_against_impl': self.replay_ok,
            'samples': self.samples[:12] if self.samples else [{'note': 'no sample recorded'}],
            'evaluations': max(1, self.solver_queries),
            'distinct_nontrivial': max(distinct_nontrivial, 0),
            'rule': rule or ('each evaluation is one SMT query (obligation or reachability witness) over a symbolic '
                             'execution of the real MIR; distinct_nontrivial counts the reachability witnesses '
                             'that were satisfiable (non-vacuity) in this run'),
            'obligations': self.obligations,
            'discharged': self.discharged,
            'witnesses': self.witnesses,
            'witnesses_sat': self.witness_sat,
            'native_replays': self.replayed,
            'cubes': self.cubes,
            'exhaustive': False,
            'explanation': explanation,
            'bounds': self.bounds,
            'functions_encoded': sorted(self.functions.values(), key=lambda f: f['fn']),
            'environment_models_used': self.models_used,
            'symbolic_execution': self.symex,
            'solver': {'queries': self.solver_queries, 'time_s': round(self.solver_time, 2),
                       'log_sample': self.solver_log[:40]},
            'known_findings_seen': self.known_seen,
            'inconclusive': self.inconclusive[:10],
            'notes': self.notes[:40],
            'trusted_base': trusted or [],
        }
        cov.update(self.extra)
        ev = {
            'property_id': self.pid,
            'tier': self.tier,
            'seed': self.seed,
            'level': level,
            'coverage': cov,
            'assumptions': self.assumptions,
            'wall_s': round(wall, 2),
            'violations': len(self.violations),
        }
        os.makedirs(os.path.join(VERIF, 'evidence'), exist_ok=True)
        path = os.path.join(VERIF, 'evidence', '%s.json' % self.pid)
        tmp = path + '.tmp%d' % os.getpid()
        with open(tmp, 'w') as f:
            json.dump(ev, f, indent=1, sort_keys=True, default=str)
        os.rename(tmp, path)
        if self.violations:
            code = 1
        elif self.inconclusive:
            code = 2
        else:
            code = 0
        print('[%s] tier=%s obligations=%d discharged=%d witnesses=%d/%d native_ok=%d/%d queries=%d solver=%.1fs '
              'wall=%.1fs exit=%d' % (self.pid, self.tier, self.obligations, self.discharged, self.witness_sat,
                                      self.witnesses, self.replay_ok, self.replayed, self.solver_queries,
                                      self.solver_time, wall, code), flush=True)
        return code


def cube_stats(ex, models):
    from . import smt
    from .scenario import fn_summary
    return {
        'symex': {'blocks': ex.nblocks, 'statements': ex.nstmts, 'calls_inlined': ex.ncalls, 'merges': ex.nmerges,
                  'model_calls': ex.nmodel_calls},
        'functions': fn_summary(ex),
        'models_used': dict(models.used),
        'solver_time': smt.STATS.time,
        'solver_queries': smt.STATS.queries,
        'solver_log': smt.STATS.log[-6:],
    }


def replay_file(pid, path):
    """./check <ID> --replay FILE: re-run the recorded script(s) of a violation on the current /repo build and compare with
    what was observed when the violation was reported.  exit 1 = reproduces, 0 = no longer reproduces, 2 = cannot replay"""
    d = json.load(open(path))
    scripts = []
    for k in ('script', 'script_original', 'script_restored'):
        if isinstance(d.get(k), dict):
            scripts.append((k, d[k]))
    if not scripts:
        print('[%s] replay: %s carries no native script (solver model only): %s' % (pid, path, json.dumps(d.get('model') or d.get('playback') or {})[:400]))
        return 2
    same = True
    for k, sc in scripts:
        nat = run_native(sc, cfg_hooks=(sc.get('kind') == 'concurrent'))
        print('[%s] replay %s -> %s' % (pid, k, json.dumps(nat)[:1500]))
        rec = d.get('native') if k == 'script' else d.get('native_' + k.split('_')[1])
        if rec is None:
            print('[%s] replay: the file carries no recorded outcome to compare with' % pid)
            return 2
        if rec is not None:
            if k != 'script':
                res = nat.get('results') or []
                last = res[-1] if res else {}
                got = [{'maker': t['maker'], 'quantity': t['quantity']} for t in (last.get('match') or {}).get('transactions', [])]
                same = same and (got == rec)
            else:
                same = same and (json.dumps(nat, sort_keys=True) == json.dumps(rec, sort_keys=True))
    what = d.get('obligation') or d.get('rule') or ''
    if same:
        print('[%s] REPRODUCED: %s | %s' % (pid, what, (d.get('history') or d.get('schedule') or d.get('case') or d.get('call') or '')[:300]))
        print('VIOLATION property=%s replay=%s' % (pid, path))
        return 1
    print('[%s] the recorded outcome does not reproduce on the current tree (%s)' % (pid, what))
    return 0
