"""Reader for rustc's `-Zunpretty=mir` text dump.

Parses function headers, local declarations, basic blocks, statements and terminators
into small tuples.  Anything it does not understand raises Unsupported *when that
function is parsed*, so a check fails closed (exit 2) instead of silently skipping code.
"""
import re, os, subprocess, hashlib, time

EXIT = -1


class Unsupported(Exception):
    pass


# ------------------------------------------------------------------ lexical helpers

_OPEN = '([{'
_CLOSE = ')]}'


def split_top(s, sep=','):
    """split s at top-level `sep` (nesting of ()[]{} and <>; string literals skipped)"""
    parts = []
    depth = 0
    adepth = 0
    cur = []
    i = 0
    n = len(s)
    while i < n:
        c = s[i]
        if c == '"':
            j = i + 1
            while j < n and s[j] != '"':
                if s[j] == '\\':
                    j += 1
                j += 1
            cur.append(s[i:j + 1])
            i = j + 1
            continue
        if c in _OPEN:
            depth += 1
        elif c in _CLOSE:
            depth -= 1
        elif c == '<':
            adepth += 1
        elif c == '>':
            if i > 0 and s[i - 1] == '-':
                pass
            elif adepth > 0:
                adepth -= 1
        if c == sep and depth == 0 and adepth == 0:
            parts.append(''.join(cur).strip())
            cur = []
        else:
            cur.append(c)
        i += 1
    last = ''.join(cur).strip()
    if last or parts:
        parts.append(last)
    return parts


def match_close(s, i):
    """s[i] is an opening bracket; return index of its matching close (ignores <>)"""
    depth = 0
    n = len(s)
    j = i
    while j < n:
        c = s[j]
        if c == '"':
            j += 1
            while j < n and s[j] != '"':
                if s[j] == '\\':
                    j += 1
                j += 1
        elif c in _OPEN:
            depth += 1
        elif c in _CLOSE:
            depth -= 1
            if depth == 0:
                return j
        j += 1
    raise Unsupported('unbalanced: ' + s)


def strip_generics(s):
    """remove every <...> group (turbofish and type args); keeps `<T as Trait>` heads untouched
    only if called on the part after them"""
    out = []
    depth = 0
    i = 0
    while i < len(s):
        c = s[i]
        if c == '<':
            depth += 1
        elif c == '>' and not (i > 0 and s[i - 1] == '-'):
            depth -= 1
        elif depth == 0:
            out.append(c)
        i += 1
    return ''.join(out).replace('::::', '::')


# ------------------------------------------------------------------ places / operands

class Place(object):
    __slots__ = ('local', 'proj')

    def __init__(self, local, proj):
        self.local = local
        self.proj = proj  # tuple of ('deref',) | ('field', i, ty) | ('downcast', name) | ('index', local) | ('cindex', i)

    def __repr__(self):
        return '_%d%s' % (self.local, ''.join('.' + '/'.join(str(x) for x in p) for p in self.proj))


_local_re = re.compile(r'^_(\d+)$')


def parse_place(s):
    s = s.strip()
    m = _local_re.match(s)
    if m:
        return Place(int(m.group(1)), ())
    if s.startswith('(*') and match_close(s, 0) == len(s) - 1:
        inner = parse_place(s[2:-1])
        return Place(inner.local, inner.proj + (('deref',),))
    if s.startswith('*'):
        inner = parse_place(s[1:])
        return Place(inner.local, inner.proj + (('deref',),))
    if s.startswith('(') and match_close(s, 0) == len(s) - 1:
        body = s[1:-1]
        # downcast: "<place> as Variant"
        m = re.match(r'^(.*) as ([A-Za-z_][A-Za-z0-9_]*)$', body)
        if m and _balanced(m.group(1)):
            inner = parse_place(m.group(1))
            return Place(inner.local, inner.proj + (('downcast', m.group(2)),))
        # field: "<place>.N: TYPE"
        # find the place prefix: either _N or a parenthesised group
        if body.startswith('('):
            e = match_close(body, 0)
            head = body[:e + 1]
            rest = body[e + 1:]
        else:
            m2 = re.match(r'^(\*?_\d+)', body)
            if not m2:
                raise Unsupported('place: ' + s)
            head = m2.group(1)
            rest = body[m2.end():]
        m3 = re.match(r'^\.(\d+): (.*)$', rest, re.S)
        if not m3:
            raise Unsupported('place: ' + s)
        inner = parse_place(head)
        return Place(inner.local, inner.proj + (('field', int(m3.group(1)), m3.group(2).strip()),))
    # index projections  P[_i]  /  P[3 of 4]
    m = re.match(r'^(.*)\[(_\d+)\]$', s)
    if m:
        inner = parse_place(m.group(1))
        return Place(inner.local, inner.proj + (('index', int(m.group(2)[1:])),))
    m = re.match(r'^(.*)\[(\d+) of (\d+)\]$', s)
    if m:
        inner = parse_place(m.group(1))
        return Place(inner.local, inner.proj + (('cindex', int(m.group(2))),))
    raise Unsupported('place: ' + s)


def _balanced(s):
    d = 0
    for c in s:
        if c in _OPEN:
            d += 1
        elif c in _CLOSE:
            d -= 1
            if d < 0:
                return False
    return d == 0


_int_const = re.compile(r'^(-?\d+)_(u8|u16|u32|u64|u128|usize|i8|i16|i32|i64|i128|isize)$')

INT_WIDTH = {'u8': 8, 'u16': 16, 'u32': 32, 'u64': 64, 'u128': 128, 'usize': 64,
             'i8': 8, 'i16': 16, 'i32': 32, 'i64': 64, 'i128': 128, 'isize': 64, 'char': 32}


def int_info(ty):
    """(width, signed) or None"""
    ty = ty.strip()
    if ty in INT_WIDTH:
        return INT_WIDTH[ty], ty[0] == 'i'
    return None


def parse_operand(s):
    s = s.strip()
    if s.startswith('copy '):
        return ('copy', parse_place(s[5:]))
    if s.startswith('move '):
        return ('move', parse_place(s[5:]))
    if s.startswith('const '):
        return ('const', parse_const(s[6:].strip()))
    if re.match(r'^[<A-Za-z_][^=]*$', s) and not s.startswith('_'):
        # a function item named directly (passed as a value)
        return ('const', ('fnitem', s))
    raise Unsupported('operand: ' + s)


def parse_const(c):
    m = _int_const.match(c)
    if m:
        return ('int', int(m.group(1)), m.group(2))
    if c in ('true', 'false'):
        return ('bool', c == 'true')
    if c == '()':
        return ('unit',)
    if c.startswith('"'):
        return ('str', c)
    if c.startswith('ZeroSized: '):
        return ('zst', c[len('ZeroSized: '):].strip())
    m = re.match(r"^'(.)'$", c)
    if m:
        return ('int', ord(m.group(1)), 'char')
    if c.startswith('{') or c.startswith('b"'):
        return ('opaque', c)
    m = re.match(r'^(-?[\d.eE+-]+)(f32|f64)$', c)
    if m:
        return ('float', c)
    # named constant / path
    return ('named', c)


BINOPS = {'Add', 'Sub', 'Mul', 'Div', 'Rem', 'BitAnd', 'BitOr', 'BitXor', 'Shl', 'Shr', 'Eq', 'Ne', 'Lt', 'Le',
          'Gt', 'Ge', 'AddWithOverflow', 'SubWithOverflow', 'MulWithOverflow', 'AddUnchecked', 'SubUnchecked',
          'MulUnchecked', 'ShlUnchecked', 'ShrUnchecked', 'Cmp', 'Offset'}
UNOPS = {'Not', 'Neg', 'PtrMetadata'}


def parse_rvalue(s):
    s = s.strip()
    if s.startswith('no_retag '):
        s = s[len('no_retag '):]
    if s.startswith('copy ') or s.startswith('move ') or s.startswith('const '):
        # may be a cast:  "<operand> as T (Kind)"
        m = re.match(r'^(.*) as (.*) \((\w+(?:\([^)]*\))?)\)$', s, re.S)
        if m and _balanced(m.group(1)):
            try:
                return ('cast', parse_operand(m.group(1)), m.group(2).strip(), m.group(3))
            except Unsupported:
                pass
        return ('use', parse_operand(s))
    if s.startswith('&raw '):
        rest = s[5:]
        mut = rest.startswith('mut ')
        return ('ref', parse_place(rest.split(' ', 1)[1]), mut)
    if s.startswith('&mut '):
        return ('ref', parse_place(s[5:]), True)
    if s.startswith('&'):
        t = s[1:].strip()
        for pre in ('fake shallow ', 'fake ', 'two_phase ', 'shallow '):
            if t.startswith(pre):
                t = t[len(pre):]
        return ('ref', parse_place(t), False)
    m = re.match(r'^(\w+)\((.*)\)$', s, re.S)
    if m and match_close(s, len(m.group(1))) == len(s) - 1:
        op = m.group(1)
        if op == 'discriminant':
            return ('discr', parse_place(m.group(2)))
        if op in BINOPS:
            a, b = split_top(m.group(2))
            return ('binop', op, parse_operand(a), parse_operand(b))
        if op in UNOPS:
            return ('unop', op, parse_operand(m.group(2)))
        if op in ('Len',):
            return ('len', parse_place(m.group(2)))
        if op == 'CopyForDeref':
            return ('use', ('copy', parse_place(m.group(2))))
    if s.startswith('(') and match_close(s, 0) == len(s) - 1:
        inner = s[1:-1].strip()
        items = split_top(inner) if inner else []
        if items and items[-1] == '':
            items = items[:-1]
        return ('tuple', [parse_operand(x) for x in items])
    if s.startswith('[') and match_close(s, 0) == len(s) - 1:
        inner = s[1:-1].strip()
        semi = split_top(inner, ';')
        if len(semi) == 2:
            return ('repeat', parse_operand(semi[0]), semi[1])
        items = split_top(inner) if inner else []
        return ('array', [parse_operand(x) for x in items])
    # aggregates:  Path { f: op, ... }  |  Path(op, ...)  |  Path
    if s.endswith('}'):
        # find the opening brace matching the last '}'
        i = _find_open_for_last(s, '{')
        path = s[:i].strip()
        body = s[i + 1:-1].strip()
        fields = []
        if body:
            for item in split_top(body):
                if not item:
                    continue
                k, v = item.split(':', 1)
                fields.append((k.strip(), parse_operand(v)))
        return ('adt', path, fields, True)
    if s.endswith(')'):
        i = _find_open_for_last(s, '(')
        path = s[:i].strip()
        body = s[i + 1:-1].strip()
        items = split_top(body) if body else []
        return ('adt', path, [(str(n), parse_operand(x)) for n, x in enumerate(items)], False)
    if re.match(r'^[A-Za-z_<\[]', s):
        return ('adt', s, [], None)
    raise Unsupported('rvalue: ' + s)


def _find_open_for_last(s, openc):
    """index of the bracket that matches the final character of s"""
    depth = 0
    i = len(s) - 1
    instr = False
    while i >= 0:
        c = s[i]
        if c == '"' and not (i > 0 and s[i - 1] == '\\'):
            instr = not instr
        elif not instr:
            if c in _CLOSE:
                depth += 1
            elif c in _OPEN:
                depth -= 1
                if depth == 0:
                    return i
        i -= 1
    raise Unsupported('no opener: ' + s)


# ------------------------------------------------------------------ functions

class Fn(object):
    def __init__(self, name, header_line, lineno):
        self.name = name
        self.header = header_line
        self.lineno = lineno
        self.raw = []  # body lines
        self.parsed = False
        self.params = []  # list of (local, type)
        self.ret_ty = None
        self.local_ty = {}
        self.blocks = {}
        self.cleanup = set()
        self.ipdom = {}
        self.nstmts = 0
        self.debug_names = {}

    def parse(self):
        if self.parsed:
            return self
        try:
            self._parse()
        except Unsupported as e:
            raise Unsupported('%s (MIR line %d): %s' % (self.name, self.lineno, e))
        self.parsed = True
        return self

    def _parse(self):
        h = self.header
        i = h.index('(', len('fn ' + self.name))
        j = match_close(h, i)
        for p in split_top(h[i + 1:j]):
            if not p:
                continue
            m = re.match(r'^(?:mut )?_(\d+): (.*)$', p, re.S)
            self.params.append((int(m.group(1)), m.group(2)))
            self.local_ty[int(m.group(1))] = m.group(2)
        m = re.match(r'^\s*->\s*(.*)\s*\{$', h[j + 1:].strip(), re.S)
        self.ret_ty = m.group(1).strip() if m else '()'
        cur = None
        stmts = None
        for line in self.raw:
            t = line.strip()
            if not t or t == '}':
                continue
            m = re.match(r'^let (?:mut )?_(\d+): (.*);$', t)
            if m and cur is None:
                self.local_ty[int(m.group(1))] = m.group(2)
                continue
            if cur is None and t.startswith('debug '):
                dm = re.match(r'^debug (\w+) => _(\d+);$', t)
                if dm:
                    self.debug_names.setdefault(dm.group(1), int(dm.group(2)))
            if cur is None and (t.startswith('debug ') or t.startswith('scope ') or t.startswith('let ')):
                m = re.match(r'^let (?:mut )?_(\d+): (.*);$', t)
                if m:
                    self.local_ty[int(m.group(1))] = m.group(2)
                continue
            m = re.match(r'^bb(\d+)( \(cleanup\))?: \{$', t)
            if m:
                cur = int(m.group(1))
                stmts = []
                self.blocks[cur] = [stmts, None]
                if m.group(2):
                    self.cleanup.add(cur)
                continue
            if cur is None:
                continue
            if cur in self.cleanup:
                continue
            if not t.endswith(';'):
                raise Unsupported('line without ;: ' + t)
            t = t[:-1]
            term = self._terminator(t)
            if term is not None:
                self.blocks[cur][1] = term
            else:
                st = self._statement(t)
                if st is not None:
                    stmts.append(st)
                    self.nstmts += 1
        self._postdom()

    def _statement(self, t):
        if t == 'nop' or t.startswith('StorageLive(') or t.startswith('StorageDead(') \
                or t.startswith('FakeRead(') or t.startswith('PlaceMention(') or t.startswith('Coverage') \
                or t.startswith('ConstEvalCounter') or t.startswith('AscribeUserType') or t.startswith('Retag(') \
                or t.startswith('Deinit('):
            return None
        m = re.match(r'^discriminant\((.*)\) = (\d+)$', t)
        if m:
            return ('setdiscr', parse_place(m.group(1)), int(m.group(2)))
        if t.startswith('assume('):
            return ('assume', parse_operand(t[len('assume('):-1]))
        parts = _split_assign(t)
        if parts is None:
            raise Unsupported('statement: ' + t)
        return ('assign', parse_place(parts[0]), parse_rvalue(parts[1]))

    def _terminator(self, t):
        if t.startswith('goto -> bb'):
            return ('goto', int(t[len('goto -> bb'):]))
        if t == 'return':
            return ('return',)
        if t == 'unreachable':
            return ('unreachable',)
        if t in ('resume', 'abort') or t.startswith('terminate'):
            return ('dead', t)
        if t.startswith('switchInt('):
            e = match_close(t, len('switchInt'))
            op = parse_operand(t[len('switchInt('):e])
            m = re.match(r'^\s*->\s*\[(.*)\]$', t[e + 1:])
            targets = []
            otherwise = None
            for item in split_top(m.group(1)):
                k, v = item.split(':')
                bb = int(v.strip()[2:])
                if k.strip() == 'otherwise':
                    otherwise = bb
                else:
                    targets.append((int(k.strip()), bb))
            return ('switch', op, targets, otherwise)
        if t.startswith('drop('):
            e = match_close(t, 4)
            m = re.search(r'return: bb(\d+)', t[e:])
            return ('drop', parse_place(t[5:e]), int(m.group(1)))
        if t.startswith('assert('):
            e = match_close(t, 6)
            args = split_top(t[7:e])
            cond = args[0]
            neg = False
            if cond.startswith('!'):
                neg = True
                cond = cond[1:]
            m = re.search(r'success: bb(\d+)', t[e:])
            return ('assert', parse_operand(cond), neg, args[1] if len(args) > 1 else '', int(m.group(1)))
        # call:  PLACE = CALLEE(args) -> [return: bbN, unwind ...]   |   ... -> unwind continue (diverging)
        m = re.match(r'^(.*\)) -> (\[return: bb(\d+), unwind[^\]]*\]|unwind [\w() ]+)$', t, re.S)
        if m:
            body = m.group(1)
            ret = int(m.group(3)) if m.group(3) is not None else None
            parts = _split_assign(body)
            if parts is None:
                raise Unsupported('call: ' + t)
            dest, call = parts
            i = _find_open_for_last(call, '(')
            callee = call[:i].strip()
            argtxt = call[i + 1:-1].strip()
            args = [parse_operand(a) for a in split_top(argtxt)] if argtxt else []
            return ('call', parse_place(dest), callee, args, ret)
        if t.startswith('falseEdge') or t.startswith('falseUnwind') or t.startswith('yield') \
                or t.startswith('tailcall') or t.startswith('asm!'):
            raise Unsupported('terminator: ' + t)
        return None

    # ---- post-dominators on the normal-edge CFG restricted to blocks that can reach `return`
    def succs(self, b):
        term = self.blocks[b][1]
        if term is None:
            raise Unsupported('block bb%d without terminator' % b)
        k = term[0]
        if k == 'goto':
            return [term[1]]
        if k == 'return':
            return [EXIT]
        if k in ('unreachable', 'dead'):
            return []
        if k == 'switch':
            out = [bb for _, bb in term[2]]
            if term[3] is not None:
                out.append(term[3])
            return out
        if k == 'drop':
            return [term[2]]
        if k == 'assert':
            return [term[4]]
        if k == 'call':
            return [term[4]] if term[4] is not None else []
        raise Unsupported('succs of ' + k)

    def loops(self):
        """natural loops: {header block: set of body blocks} (normal edges only)"""
        if hasattr(self, '_loops'):
            return self._loops
        blocks = [b for b in self.blocks if b not in self.cleanup]
        succ = {b: [s for s in self.succs(b) if s != EXIT] for b in blocks}
        # dominators
        dom = {b: set(blocks) for b in blocks}
        dom[0] = {0}
        changed = True
        preds = {b: [] for b in blocks}
        for b in blocks:
            for s2 in succ[b]:
                preds[s2].append(b)
        while changed:
            changed = False
            for b in blocks:
                if b == 0:
                    continue
                ps = [dom[p] for p in preds[b]]
                new = set.intersection(*ps) if ps else set()
                new = new | {b}
                if new != dom[b]:
                    dom[b] = new
                    changed = True
        loops = {}
        for b in blocks:
            for h in succ[b]:
                if h in dom[b]:  # back edge b -> h
                    body = loops.setdefault(h, {h})
                    stack = [b]
                    while stack:
                        x = stack.pop()
                        if x not in body:
                            body.add(x)
                            stack.extend(preds[x])
        self._loops = loops
        return loops

    def calls_transitively(self, needle, crate, depth, seen=None):
        """some call in this function names `needle`, directly or through crate functions up to `depth` levels down"""
        seen = seen if seen is not None else set()
        if self.name in seen:
            return False
        seen.add(self.name)
        self.parse()
        for b, blk in self.blocks.items():
            t = blk[1]
            if not t or t[0] != 'call':
                continue
            if needle in t[2]:
                return True
            if crate is not None and depth > 0:
                try:
                    g = crate.resolve(t[2])
                except Unsupported:
                    g = None
                if g is not None and g.calls_transitively(needle, crate, depth - 1, seen):
                    return True
        return False

    def loop_containing_call(self, needle, crate=None, depth=2):
        """header of the innermost loop whose body contains a call whose callee text contains `needle` (or, given the
        crate, a call of a crate function that reaches such a call: the loop body may have been moved into a helper)"""
        best = None
        for h, body in self.loops().items():
            for b in body:
                t = self.blocks[b][1]
                if t and t[0] == 'call' and needle in t[2]:
                    if best is None or len(body) < len(self.loops()[best]):
                        best = h
        if best is None and crate is not None:
            for h, body in self.loops().items():
                for b in body:
                    t = self.blocks[b][1]
                    if not (t and t[0] == 'call'):
                        continue
                    try:
                        g = crate.resolve(t[2])
                    except Unsupported:
                        g = None
                    if g is not None and g.calls_transitively(needle, crate, depth - 1):
                        if best is None or len(body) < len(self.loops()[best]):
                            best = h
        return best

    def _postdom(self):
        blocks = [b for b in self.blocks if b not in self.cleanup]
        succ = {b: self.succs(b) for b in blocks}
        # blocks that can reach EXIT
        reach = {EXIT}
        changed = True
        while changed:
            changed = False
            for b in blocks:
                if b not in reach and any(s in reach for s in succ[b]):
                    reach.add(b)
                    changed = True
        self.reach_exit = reach
        live_succ = {b: [s for s in succ[b] if s in reach] for b in blocks if b in reach}
        nodes = [b for b in blocks if b in reach] + [EXIT]
        full = set(nodes)
        pdom = {b: set(full) for b in nodes}
        pdom[EXIT] = {EXIT}
        changed = True
        while changed:
            changed = False
            for b in nodes:
                if b == EXIT:
                    continue
                ss = live_succ[b]
                new = set(full)
                for s in ss:
                    new &= pdom[s]
                new.add(b)
                if new != pdom[b]:
                    pdom[b] = new
                    changed = True
        for b in nodes:
            if b == EXIT:
                continue
            cands = pdom[b] - {b}
            # immediate post-dominator: the candidate that is post-dominated by all other candidates
            ip = None
            for c in cands:
                if all((d in pdom[c]) for d in cands):
                    ip = c
                    break
            self.ipdom[b] = ip


def _split_assign(t):
    """split 'PLACE = RVALUE' at the first top-level ' = '"""
    depth = 0
    i = 0
    n = len(t)
    while i < n:
        c = t[i]
        if c == '"':
            return None
        if c in _OPEN:
            depth += 1
        elif c in _CLOSE:
            depth -= 1
        elif depth == 0 and t.startswith(' = ', i):
            return t[:i], t[i + 3:]
        i += 1
    return None


class Crate(object):
    """all functions / constants of one MIR dump plus the impl-header index from the sources"""

    def __init__(self, mir_text, src_root):
        self.src_root = src_root
        self.fns = {}
        self.consts = {}
        self.by_method = {}
        self.closures = {}
        self._src_cache = {}
        self.text_lines = mir_text.count('\n')
        self._scan(mir_text)

    def _scan(self, text):
        lines = text.split('\n')
        i = 0
        n = len(lines)
        while i < n:
            line = lines[i]
            if line.startswith('fn '):
                # name is up to the parameter list's '(' : find first '(' at depth 0 wrt <>
                name = _fn_name(line)
                f = Fn(name, line, i + 1)
                j = i + 1
                while j < n and lines[j] != '}':
                    f.raw.append(lines[j])
                    j += 1
                self._register(f)
                i = j + 1
                continue
            m = re.match(r'^const (.*): (.*?) = const (.*);$', line)
            if m:
                self.consts[m.group(1).split('::')[-1]] = (m.group(2), parse_const(m.group(3)))
            i += 1

    def _register(self, f):
        self.fns[f.name] = f
        last = f.name.split('::')[-1]
        if '::tests::' in f.name or f.name.startswith('tests::'):
            f.is_test = True
            return
        f.is_test = False
        m = re.match(r'^\{closure#(\d+)\}$', last)
        if m:
            # closure: keyed by the type of its first parameter
            hm = re.search(r'\(_1: (?:&mut |&)?(\{closure@[^}]*\})', f.header)
            if hm:
                self.closures[hm.group(1)] = f
            return
        self.by_method.setdefault(last, []).append(f)

    # ---- impl header lookup from the source span embedded in the MIR name
    def impl_info(self, f):
        """returns (self_type_name, trait_name or None) for fn f, read from the source span"""
        if hasattr(f, '_impl'):
            return f._impl
        spans = re.findall(r'<impl at ([^:>]+):(\d+):(\d+): (\d+):(\d+)>', f.name)
        info = (None, None)
        if spans:
            path, l0, c0, l1, c1 = spans[-1]
            # the *last* impl span that precedes the method name belongs to the method
            src = self._src(path)
            if src is not None:
                l0, c0, l1, c1 = int(l0), int(c0), int(l1), int(c1)
                if l0 == l1:
                    txt = src[l0 - 1][c0 - 1:c1 - 1]
                else:
                    txt = ' '.join([src[l0 - 1][c0 - 1:]] + src[l0:l1 - 1] + [src[l1 - 1][:c1 - 1]])
                info = self._parse_impl(txt, src, l0)
        f._impl = info
        return info

    def _src(self, path):
        if path not in self._src_cache:
            p = os.path.join(self.src_root, path)
            try:
                self._src_cache[path] = open(p).read().split('\n')
            except IOError:
                self._src_cache[path] = None
        return self._src_cache[path]

    def _parse_impl(self, txt, src, line):
        txt = txt.strip()
        if txt.startswith('impl'):
            body = txt[4:].strip()
            if body.startswith('<'):
                # skip generic params
                d = 0
                for k, c in enumerate(body):
                    if c == '<':
                        d += 1
                    elif c == '>':
                        d -= 1
                        if d == 0:
                            body = body[k + 1:].strip()
                            break
            parts = re.split(r'\s+for\s+', body)
            if len(parts) == 2:
                return (_type_head(parts[1]), _type_head(parts[0]))
            return (_type_head(body), None)
        # derive: txt is the trait identifier; the type is the next struct/enum item
        if re.match(r'^[A-Za-z_]+$', txt):
            for k in range(line - 1, min(line + 40, len(src))):
                m = re.match(r'^\s*(?:pub(?:\([^)]*\))?\s+)?(?:struct|enum)\s+([A-Za-z_][A-Za-z0-9_]*)', src[k])
                if m:
                    return (m.group(1), txt)
        return (None, None)

    def resolve(self, callee):
        """callee text of a Call terminator -> Fn or None (not a function of this crate)"""
        c = callee.strip()
        m = re.match(r'^<(.*) as (.*)>::([A-Za-z_][A-Za-z0-9_]*)(?:::<.*>)?$', c, re.S)
        if m and _balanced_angle(m.group(1)):
            ty = _type_head(m.group(1))
            trait = _type_head(m.group(2))
            meth = m.group(3)
            cands = [f for f in self.by_method.get(meth, []) if self.impl_info(f) == (ty, trait)]
            if len(cands) == 1:
                return cands[0]
            if len(cands) > 1:
                # disambiguate by trait argument text
                want = re.sub(r'\s+', '', m.group(2))
                c2 = []
                for f in cands:
                    spans = re.findall(r'<impl at ([^:>]+):(\d+):(\d+): (\d+):(\d+)>', f.name)
                    path, l0, c0, l1, c1 = spans[-1]
                    src = self._src(path)
                    htxt = re.sub(r'\s+', '', src[int(l0) - 1][int(c0) - 1:int(c1) - 1])
                    if want.replace("'_", '') in htxt.replace("'_", '') or _loose(want) in _loose(htxt):
                        c2.append(f)
                if len(c2) == 1:
                    return c2[0]
                raise Unsupported('ambiguous callee %s: %s' % (callee, [f.name for f in cands]))
            return None
        plain = strip_generics(c)
        segs = [x for x in plain.split('::') if x]
        if len(segs) >= 2:
            ty, meth = segs[-2], segs[-1]
            cands = [f for f in self.by_method.get(meth, []) if self.impl_info(f)[0] == ty
                     and self.impl_info(f)[1] is None]
            if len(cands) > 1 and len(set(f.name for f in cands)) == 1:
                # a `const fn` is dumped twice (runtime and const-eval body): the first is the runtime MIR
                return cands[0]
            if len(cands) == 1:
                return cands[0]
            if len(cands) > 1:
                raise Unsupported('ambiguous callee %s: %s' % (callee, [f.name for f in cands]))
        if segs:
            # free function of the crate (module-level helper), possibly called through its module path
            meth = segs[-1]
            cands = [f for f in self.by_method.get(meth, []) if '<impl at' not in f.name
                     and (len(segs) == 1 or f.name.endswith('::'.join(segs[-2:])) or f.name == meth)]
            names = set(f.name for f in cands)
            if len(names) == 1:
                return cands[0]
            if len(names) > 1:
                raise Unsupported('ambiguous free function %s: %s' % (callee, sorted(names)))
        return None

    def closure(self, ty):
        return self.closures.get(ty.strip())


def _loose(s):
    return re.sub(r"[^A-Za-z0-9]", '', s)


def _balanced_angle(s):
    d = 0
    for i, c in enumerate(s):
        if c == '<':
            d += 1
        elif c == '>' and not (i > 0 and s[i - 1] == '-'):
            d -= 1
            if d < 0:
                return False
    return d == 0


def _type_head(t):
    """'&PriceLevel' -> PriceLevel; 'OrderType<T>' -> OrderType; 'From<&X>' -> From; 'a::b::C<..>' -> C"""
    t = t.strip()
    t = re.sub(r'^(&\s*(mut\s+)?|\*const\s+|\*mut\s+)', '', t)
    t = strip_generics(t).strip()
    t = t.split(' where ')[0].strip().rstrip('{').strip()
    return t.split('::')[-1]


def _fn_name(line):
    # "fn NAME(PARAMS) -> RET {" ; NAME may contain '(' only inside <...> groups
    s = line[3:]
    d = 0
    for i, c in enumerate(s):
        if c == '<':
            d += 1
        elif c == '>' and not (i > 0 and s[i - 1] == '-'):
            d -= 1
        elif c == '(' and d == 0:
            return s[:i]
    raise Unsupported('fn header: ' + line)


# ------------------------------------------------------------------ producing the dump

def source_hash(repo):
    h = hashlib.sha256()
    for root, dirs, files in os.walk(os.path.join(repo, 'src')):
        dirs.sort()
        for fn in sorted(files):
            p = os.path.join(root, fn)
            h.update(p.encode())
            h.update(open(p, 'rb').read())
    for fn in ('Cargo.toml', 'Cargo.lock'):
        p = os.path.join(repo, fn)
        if os.path.exists(p):
            h.update(open(p, 'rb').read())
    return h.hexdigest()


def dump(repo='/repo', cache='/verif/.cache', force=False):
    """(Re)generate the MIR dump of the crate at `repo`.  The dump is keyed by the hash of the
    crate sources; it is regenerated whenever the sources differ from the cached dump's key
    (and always when force=True).  /repo is never written (separate --target-dir)."""
    os.makedirs(cache, exist_ok=True)
    h = source_hash(repo)
    out = os.path.join(cache, 'mir-%s.txt' % h[:16])
    info = {'source_sha256': h, 'cached': True, 'path': out}
    if force or not os.path.exists(out) or os.path.getsize(out) < 1000:
        t0 = time.time()
        tdir = os.path.join(cache, 'mir-target')
        env = dict(os.environ)
        env['CARGO_NET_OFFLINE'] = 'true'
        # invalidate the crate fingerprint so rustc really runs again
        subprocess.run(['cargo', '+nightly', 'clean', '--offline', '--manifest-path', os.path.join(repo, 'Cargo.toml'),
                        '--target-dir', tdir, '-p', 'pricelevel'], env=env, stdout=subprocess.DEVNULL,
                       stderr=subprocess.DEVNULL)
        p = subprocess.run(['cargo', '+nightly', 'rustc', '--offline', '--manifest-path',
                            os.path.join(repo, 'Cargo.toml'), '--lib', '--target-dir', tdir, '--',
                            '-Zunpretty=mir', '-C', 'debug-assertions=off', '-C', 'overflow-checks=on'],
                           env=env, stdout=subprocess.PIPE, stderr=subprocess.PIPE, universal_newlines=True)
        if p.returncode != 0 or len(p.stdout) < 1000:
            raise Unsupported('MIR dump failed (rc=%d): %s' % (p.returncode, p.stderr[-2000:]))
        tmp = out + '.tmp%d' % os.getpid()
        with open(tmp, 'w') as f:
            f.write(p.stdout)
        os.rename(tmp, out)
        info['cached'] = False
        info['dump_s'] = round(time.time() - t0, 2)
        # drop older dumps
        for fn in os.listdir(cache):
            if fn.startswith('mir-') and fn.endswith('.txt') and os.path.join(cache, fn) != out:
                try:
                    os.unlink(os.path.join(cache, fn))
                except OSError:
                    pass
    return out, info


def load(repo='/repo', cache='/verif/.cache', force=False):
    path, info = dump(repo, cache, force)
    text = open(path).read()
    c = Crate(text, repo)
    c.info = info
    c.info['mir_lines'] = c.text_lines
    return c
