"""Solver back end: writes SMT-LIB2 scripts, runs z3 / cvc5 as subprocesses.

A *batch* is a common set of assumptions plus a list of goals; each goal is a term G
and the query is  assumptions /\\ G  (callers pass the NEGATED property as the goal, or
a reachability condition for witnesses).  Result per goal: ('unsat',None) |
('sat', model) | ('unknown', reason).  Any '(error' line makes the affected answer
'unknown' (fail closed).
"""
import os, re, subprocess, time, hashlib, tempfile
from . import sym

SOLVERS = {
    'z3': ['z3-new', '-smt2'],
    'z3old': ['/usr/bin/z3', '-smt2'],
    'cvc5': ['cvc5', '--lang', 'smt2', '--produce-models', '--incremental'],
}

LOGIC = os.environ.get('EMIR_Z3_LOGIC', 'QF_UFBV')
# integer rendering of bit-vector arithmetic (exact wrap-around semantics kept, see sym.node_str_int)
INT_MODE = os.environ.get('EMIR_INT_MODE', '1') == '1'
SCRATCH = os.environ.get('EMIR_SMT_DIR', '/verif/.cache/smt')

_SEQ = [0]
_tok = re.compile(r'\(|\)|[^\s()]+')


def _parse_sexprs(text):
    """parse a sequence of s-expressions"""
    out = []
    stack = [out]
    for m in _tok.finditer(text):
        t = m.group(0)
        if t == '(':
            n = []
            stack[-1].append(n)
            stack.append(n)
        elif t == ')':
            stack.pop()
            if not stack:
                raise ValueError('unbalanced')
        else:
            stack[-1].append(t)
    return out


def _val(tok):
    if isinstance(tok, str) and tok.isdigit():
        return int(tok)
    if isinstance(tok, list) and len(tok) == 2 and tok[0] == '-':
        return -int(tok[1])
    if tok == 'true':
        return True
    if tok == 'false':
        return False
    if isinstance(tok, str):
        if tok.startswith('#x'):
            return int(tok[2:], 16)
        if tok.startswith('#b'):
            return int(tok[2:], 2)
    if isinstance(tok, list) and len(tok) == 2 and isinstance(tok[0], list) and tok[0][0] == '_' \
            and tok[0][1].startswith('bv'):
        return int(tok[0][1][2:])
    if isinstance(tok, list) and len(tok) == 3 and tok[0] == '_' and tok[1].startswith('bv'):
        return int(tok[1][2:])
    raise ValueError('cannot parse value %r' % (tok,))


class Stats(object):
    def __init__(self):
        self.queries = 0
        self.time = 0.0
        self.by_solver = {}
        self.max_nodes = 0
        self.log = []

    def add(self, solver, n, dt, nodes, label, verdicts):
        self.queries += n
        self.time += dt
        d = self.by_solver.setdefault(solver, [0, 0.0])
        d[0] += n
        d[1] += dt
        self.max_nodes = max(self.max_nodes, nodes)
        self.log.append({'label': label, 'solver': solver, 'goals': n, 'time_s': round(dt, 3),
                         'dag_nodes': nodes, 'verdicts': verdicts})


STATS = Stats()


def run_batch(assumptions, goals, solver='z3', timeout=600, want_model=True, label='', keep=False,
              model_vars=None, separate=True, par=1, int_mode=None):
    """goals: list of Terms. Returns list of (verdict, model|reason).
    separate=True: one non-incremental solver process per goal (z3's QF_BV tactic only applies
    there; measured 5-20x faster than push/pop on these queries); par = processes in flight."""
    if not goals:
        return []
    if len(goals) == 1 and goals[0] is sym.FALSE:
        STATS.add(solver + '/folded', 1, 0.0, 0, label, ['unsat'])
        return [('unsat', None)]
    if separate and len(goals) > 1:
        if par > 1:
            from concurrent.futures import ThreadPoolExecutor
            with ThreadPoolExecutor(par) as tp:
                futs = [tp.submit(run_batch, assumptions, [g], solver, timeout, want_model,
                                  '%s#%d' % (label, i), keep, model_vars, False, 1, int_mode)
                        for i, g in enumerate(goals)]
                return [f.result()[0] for f in futs]
        return [run_batch(assumptions, [g], solver, timeout, want_model, '%s#%d' % (label, i), keep, model_vars,
                          False, 1, int_mode)[0] for i, g in enumerate(goals)]
    os.makedirs(SCRATCH, exist_ok=True)
    roots = list(assumptions) + list(goals)
    if int_mode is None:
        int_mode = INT_MODE
    if int_mode:
        try:
            lines, names, vars_ = sym.to_smt2(roots, int_mode=True)
        except sym.IntModeUnsupported:
            int_mode = False
    if not int_mode:
        lines, names, vars_ = sym.to_smt2(roots)
    if model_vars is None:
        model_vars = vars_
    else:
        have = set(v.tid for v in vars_)
        model_vars = [v for v in model_vars if v.tid in have]
    logic = 'QF_UFLIA' if int_mode else LOGIC
    script = ['(set-option :produce-models true)', '(set-logic %s)' % logic]
    script += lines
    for a in assumptions:
        script.append('(assert %s)' % names[a.tid])
    single = len(goals) == 1
    for i, g in enumerate(goals):
        if not single:
            script.append('(push 1)')
        script.append('(assert %s)' % names[g.tid])
        script.append('(echo "@@goal %d")' % i)
        script.append('(check-sat)')
        if want_model and model_vars:
            script.append('(echo "@@model %d")' % i)
            # chunk get-value to keep lines short
            for k in range(0, len(model_vars), 50):
                script.append('(get-value (%s))' % ' '.join(v.args[0] for v in model_vars[k:k + 50]))
        script.append('(echo "@@end %d")' % i)
        if not single:
            script.append('(pop 1)')
    text = '\n'.join(script) + '\n'
    h = hashlib.sha1(text.encode()).hexdigest()[:12]
    _SEQ[0] += 1
    path = os.path.join(SCRATCH, 'q-%s-%d-%d-%s.smt2' % (h, os.getpid(), _SEQ[0], solver))
    with open(path, 'w') as f:
        f.write(text)
    cmd = list(SOLVERS[solver])
    if solver.startswith('z3'):
        cmd += ['-T:%d' % int(timeout)]
    else:
        cmd += ['--tlimit=%d' % int(timeout * 1000)]
    cmd.append(path)
    t0 = time.time()
    try:
        p = subprocess.run(cmd, stdout=subprocess.PIPE, stderr=subprocess.PIPE, timeout=timeout + 30,
                           universal_newlines=True)
        out = p.stdout
        err = p.stderr
    except subprocess.TimeoutExpired as e:
        out = e.stdout or ''
        if isinstance(out, bytes):
            out = out.decode(errors='replace')
        err = 'timeout'
    dt = time.time() - t0
    results = []
    # split per goal
    chunks = re.split(r'"?@@goal (\d+)"?\n', out)
    got = {}
    for j in range(1, len(chunks), 2):
        got[int(chunks[j])] = chunks[j + 1]
    for i in range(len(goals)):
        c = got.get(i)
        if c is None:
            results.append(('unknown', 'no answer (%s) %s' % (err.strip()[:200], out[-200:])))
            continue
        if '@@end %d' % i not in c:
            results.append(('unknown', 'truncated answer (%s)' % err.strip()[:200]))
            continue
        head = re.split(r'"?@@model %d"?\n' % i, c)
        verdict = head[0].strip().split('\n')[0].strip() if head[0].strip() else ''
        errs = [l for l in c.split('\n') if '(error' in l]
        if errs:
            # the only tolerated error: get-value after an unsat answer
            benign = verdict == 'unsat' and all(
                ('model is not available' in l) or ('annot get value' in l) or ('annot get model' in l)
                for l in errs)
            if not benign:
                results.append(('unknown', 'solver error: ' + ' | '.join(errs)[:300]))
                continue
        if verdict == 'unsat':
            results.append(('unsat', None))
        elif verdict == 'sat':
            model = {}
            if want_model and len(head) > 1:
                body = re.split(r'"?@@end %d"?' % i, head[1])[0]
                try:
                    for sx in _parse_sexprs(body):
                        for pair in sx:
                            model[pair[0]] = _val(pair[1])
                except Exception as ex:  # fail closed
                    results.append(('unknown', 'model parse failed: %r' % (ex,)))
                    continue
            results.append(('sat', model))
        else:
            results.append(('unknown', 'verdict=%r err=%s' % (verdict, err.strip()[:200])))
    STATS.add(solver + ('/int' if int_mode else '/bv'), len(goals), dt, len(lines), label, [r[0] for r in results])
    if not keep and all(r[0] != 'unknown' for r in results):
        try:
            os.unlink(path)
        except OSError:
            pass
    return results


def check(assumptions, goal, **kw):
    return run_batch(assumptions, [goal], **kw)[0]
