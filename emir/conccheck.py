"""Shared machinery of the concurrency checks (C03 C08 C12 C13 C15-concurrent): two-thread programs on an
arbitrary level state, every well-nested interleaving (conc.Sched), obligations at quiescence and at every
shared step."""
import time, json
from . import sym as S
from . import smt
from .values import UNDEF, EnumV, RefV, VecV, veq, merge, Unsupported
from .scenario import OrderView, sym_order, const_order_id, Inputs
from .histcheck import build, base_assumptions, target_id, conc, _uf_eval, state_recipe, ABSENT_ID
from .history import order_json, order_id_str, uuid_str, canon, SIDE, TAKER_ID
from .conc import Sched, Thread, SWW
from .framework import cube_stats

W = 70


def make_thread(c, name, op, slot):
    inp, L, h = c.inp, c.L, c.h
    n = c.pre['N']
    if op == 'A':
        o = sym_order(L, inp, 'new%s' % name, oid=const_order_id(n + 1 + slot), price=h.P,
                      variants=c.cube.get('add_types'))
        v = OrderView(L, o)
        c.domain.append(S.Not(S.AddOvf(v.displayed, v.hidden)))
        c.supplied.append(S.Add(v.displayed, v.hidden))
        if c.cube.get('positive_quantities'):
            c.domain.append(S.Not(S.Eq(v.displayed, S.bv(0, 64))))
        return Thread(name, op, {'order': o})
    if op == 'M':
        return Thread(name, op, {'q': inp.qty('q%s' % name)})
    if op == 'C':
        return Thread(name, op, {'id': target_id(inp, 'tgt%s' % name, n)})
    if op == 'Q':
        q = inp.qty('nq%s' % name)
        c.supplied.append(q)
        if c.cube.get('positive_quantities'):
            c.domain.append(S.Not(S.Eq(q, S.bv(0, 64))))
        return Thread(name, op, {'id': target_id(inp, 'tgt%s' % name, n), 'qty': q})
    if op == 'u':
        o = sym_order(L, inp, 'new%s' % name, oid=const_order_id(n + 1 + slot), price=h.P, variants=[0, 1, 6])
        return Thread(name, op, {'order': o})
    if op == 'o':
        return Thread(name, op, {})
    if op in 'rf':
        return Thread(name, op, {'id': target_id(inp, 'tgt%s' % name, n)})
    if op in 'PBX':
        d = {'id': target_id(inp, 'tgt%s' % name, n), 'price': inp.var('np%s' % name, 64)}
        if op in 'BX':
            d['qty'] = inp.qty('nq%s' % name)
            c.supplied.append(d['qty'])
            if c.cube.get('positive_quantities'):
                c.domain.append(S.Not(S.Eq(d['qty'], S.bv(0, 64))))
        return Thread(name, op, d)
    if op == 'N':
        return Thread(name, op, {'n': c.cube.get('calls', 2)})
    raise Unsupported(op)


def total70(L, o):
    v = OrderView(L, o)
    return S.Add(S.ZExt(v.displayed, W), S.ZExt(v.hidden, W))


AFTER = (1 << SWW) - 1


class Prog(object):
    pass


def run_program(cube, monitor_fn=None):
    """build the arbitrary state, run the threads under every well-nested schedule"""
    c = build(dict(cube, seq=''))
    h, L = c.h, c.L
    ops = cube['threads']
    threads = [make_thread(c, chr(ord('A') + i), op, i) for i, op in enumerate(ops)]
    # the total supply assumption has to be re-derived (threads added quantities)
    c.domain = [d for d in c.domain if not getattr(d, '_supply', False)]
    tot = S.bv(0, W)
    for x in c.supplied:
        tot = S.Add(tot, S.ZExt(x, W))
    c.total_supplied = tot
    c.domain.append(S.Ult(tot, S.bv(1 << 64, W)))
    P = Prog()
    P.c, P.threads = c, threads
    P.gen_counter0 = None
    if cube.get('arbitrary_generator'):
        # the id generator starts at an ARBITRARY counter value (any number of earlier calls)
        P.gen_counter0 = c.inp.var('gen.counter0', 64)
        g = h.st.mem[h.groot]
        ci = L.field_index('UuidGenerator', 'counter')
        h.st.mem[h.groot] = g[:ci] + (P.gen_counter0,) + g[ci + 1:]
        c.domain.append(S.Ult(P.gen_counter0, S.bv((1 << 64) - 64, 64)))
    P.pre_level = h.level_value()
    P.monitor_obls = []
    mon = None
    if monitor_fn is not None:
        def mon(st, pc, who, kind):
            monitor_fn(P, st.mem[h.root], pc, who, kind)
    sched = Sched(c, threads, depth=cube.get('depth', 1), monitor=mon)
    st = sched.run(h.st)
    h.st = st
    P.sched = sched
    P.final_level = h.level_value()
    if monitor_fn is not None:
        monitor_fn(P, P.final_level, S.TRUE, None, 'quiescent')
    live = S.TRUE
    for t in threads:
        live = S.And(live, t.live)
    P.live = live
    return P


# ---------------------------------------------------------------- result accessors

def upd_result(t):
    """(is_some, is_none, order) of an update_order result"""
    r = t.ret
    ok = S.Eq(r.tag, S.bv(0, 64))
    opt = r.payloads[0][0]
    got = opt.payloads.get(1, UNDEF)
    return S.And(ok, S.Eq(opt.tag, S.bv(1, 64))), S.And(ok, S.Eq(opt.tag, S.bv(0, 64))), (got[0] if got is not UNDEF else UNDEF)


def is_removal(P, t):
    """the thread's update takes the order out of the level (cancel, or a move to a different price)"""
    if t.op == 'C':
        return S.TRUE
    if t.op in 'PBX':
        return S.Not(S.Eq(t.params['price'], P.c.h.P))
    return S.FALSE


def is_amend(P, t):
    if t.op == 'Q':
        return S.TRUE
    if t.op in 'BX':
        return S.Eq(t.params['price'], P.c.h.P)
    return S.FALSE


def match_txs(L, t):
    mr = dict(zip(L.structs['MatchResult'], t.ret))
    txs = mr['transactions'][0]
    names = L.structs['Transaction']
    return [(S.Ult(S.bv(i, 64), txs.length), dict(zip(names, x))) for i, x in enumerate(txs.cells)], mr


def all_ids(P):
    c = P.c
    ids = [const_order_id(i + 1) for i in range(c.pre['N'])]
    for i, t in enumerate(P.threads):
        if t.op == 'A':
            ids.append(const_order_id(c.pre['N'] + 1 + i))
    return ids


# ---------------------------------------------------------------- obligations

def ob_invariant(P):
    """aggregates == sums over the resting orders at quiescence"""
    h = P.c.h
    parts = h.level_parts(P.final_level)
    d, hd, cnt = h.sums(parts['resting'])
    good = S.And(S.Eq(parts['visible'], d), S.Eq(parts['hidden'], hd), S.Eq(parts['count'], cnt))
    return {'name': 'quiescence: aggregates == sums over resting orders', 'goal': S.And(P.live, S.Not(good))}


def ob_conservation(P):
    """per order id: executed + handed back by cancels + still resting <= supplied (nothing duplicated), with
    equality unless hidden quantity was legitimately discarded or the order was amended"""
    c, h, L = P.c, P.c.h, P.c.L
    pre = h.level_parts(P.pre_level)['resting']
    fin = h.level_parts(P.final_level)['resting']
    conj_le, conj_eq = [], []
    for idv in all_ids(P):
        before = S.bv(0, W)
        is_reserve = S.FALSE
        for occ, key, o in pre:
            if veq(key, idv) is S.TRUE:
                before = S.Add(before, S.Ite(occ, total70(L, o), S.bv(0, W)))
                is_reserve = S.Or(is_reserve, S.And(occ, OrderView(L, o).is_variant('ReserveOrder')))
        amended = S.FALSE
        executed = S.bv(0, W)
        returned = S.bv(0, W)
        for t in P.threads:
            if t.op == 'A' and veq(OrderView(L, t.params['order']).id, idv) is S.TRUE:
                before = S.Add(before, total70(L, t.params['order']))
                is_reserve = S.Or(is_reserve, OrderView(L, t.params['order']).is_variant('ReserveOrder'))
            elif t.op == 'M':
                for v, tx in match_txs(L, t)[0]:
                    executed = S.Add(executed, S.Ite(S.And(v, veq(tx['maker_order_id'], idv)), S.ZExt(tx['quantity'], W), S.bv(0, W)))
            elif t.op in 'CQPBX':
                some, none_, got = upd_result(t)
                if got is not UNDEF:
                    returned = S.Add(returned, S.Ite(S.And(some, is_removal(P, t), veq(t.params['id'], idv)), total70(L, got), S.bv(0, W)))
                amended = S.Or(amended, S.And(some, is_amend(P, t), veq(t.params['id'], idv)))
        resting = S.bv(0, W)
        for occ, key, o in fin:
            if veq(key, idv) is S.TRUE:
                resting = S.Add(resting, S.Ite(occ, total70(L, o), S.bv(0, W)))
        acc = S.Add(S.Add(executed, returned), resting)
        conj_le.append(S.Implies(S.Not(amended), S.Ule(acc, before)))
        conj_eq.append(S.Implies(S.And(S.Not(amended), S.Not(is_reserve)), S.Eq(acc, before)))
    return [{'name': 'quiescence: per order, executed + cancelled + resting <= supplied (no unit executed twice or handed to two owners)',
             'goal': S.And(P.live, S.Not(S.And(conj_le)))},
            {'name': 'quiescence: per order, executed + cancelled + resting == supplied (no unit lost)',
             'goal': S.And(P.live, S.Not(S.And(conj_eq)))}]


def ob_reachable(P):
    """every resting order is covered by an available ticket (so a draining match reaches it)"""
    h = P.c.h
    return {'name': 'quiescence: every resting order is covered by an available ticket (not stranded)',
            'goal': S.And(P.live, S.Not(h.rep_invariant(P.final_level, coverage_only=True)))}


def ob_queue(P):
    """bare OrderQueue programs: every order handed to the queue is handed out exactly once (one pop or one remove)
    or still rests; every resting entry is covered by an available ticket"""
    c, h, L = P.c, P.c.h, P.c.L
    pre = h.level_parts(P.pre_level)['resting']
    fin = h.level_parts(P.final_level)['resting']
    ids = [const_order_id(i + 1) for i in range(c.pre['N'])] + \
          [const_order_id(c.pre['N'] + 1 + i) for i, t in enumerate(P.threads) if t.op == 'u']
    conj = []
    for idv in ids:
        put = S.bv(0, 8)
        for occ, key, o in pre:
            if veq(key, idv) is S.TRUE:
                put = S.Add(put, S.B2BV(occ, 8))
        out = S.bv(0, 8)
        for t in P.threads:
            if t.op == 'u' and veq(OrderView(L, t.params['order']).id, idv) is S.TRUE:
                put = S.Add(put, S.bv(1, 8))
            elif t.op in 'or':
                r = t.ret
                got = r.payloads.get(1, UNDEF)
                if got is not UNDEF:
                    out = S.Add(out, S.B2BV(S.And(S.Eq(r.tag, S.bv(1, 64)), veq(OrderView(L, got[0]).id, idv)), 8))
        rest = S.bv(0, 8)
        for occ, key, o in fin:
            if veq(key, idv) is S.TRUE:
                rest = S.Add(rest, S.B2BV(occ, 8))
        conj.append(S.Eq(S.Add(out, rest), put))
    return [{'name': 'queue: every order is handed out exactly once (one pop or one remove) or still rests',
             'goal': S.And(P.live, S.Not(S.And(conj)))},
            {'name': 'queue: every resting entry is covered by an available ticket',
             'goal': S.And(P.live, S.Not(h.rep_invariant(P.final_level, coverage_only=True)))}]


def ob_ack(P):
    """C13: not-found only if the order is not in the book; success means taken out"""
    c, h, L = P.c, P.c.h, P.c.L
    pre = h.level_parts(P.pre_level)['resting']
    fin = h.level_parts(P.final_level)['resting']
    out = []
    for t in P.threads:
        if t.op not in 'CQPBX':
            continue
        some, none_, got = upd_result(t)
        if t.op == 'P':
            # a price update to the level's own price is rejected: not an acknowledgement about the order
            none_ = S.And(none_, S.Not(S.Eq(t.params['price'], P.c.h.P)))
        tid = t.params['id']
        was = S.Or([S.And(occ, veq(key, tid)) for occ, key, o in pre])
        still = S.Or([S.And(occ, veq(key, tid)) for occ, key, o in fin])
        # nobody else removed it: it is still resting at the end (a cancel of the same id by the other thread or a
        # complete fill would have removed it)
        out.append({'name': 'thread %s (%s): not-found although the order rested before the call and still rests afterwards' % (t.name, t.op),
                    'goal': S.And(P.live, none_, was, still), 'known': 'C13/not-found-while-held'})
        if t.op in 'CPBX':
            out.append({'name': 'thread %s (%s): a successful removal means the order is out of the book' % (t.name, t.op),
                        'goal': S.And(P.live, some, is_removal(P, t), still)})
        # sequential placements (the other thread ran completely before this call began): "nothing removes it" is then
        # decided from what the other thread REPORTS - the order is not in its filled list and it did not take it out by
        # an acknowledged cancel / move - so an order that merely vanished (neither traded nor cancelled) is caught here
        sw = (P.c.cube.get('sw') or [None])[0]
        if len(P.threads) == 2 and sw is not None:
            u = P.threads[1] if t is P.threads[0] else P.threads[0]
            before = (t is P.threads[1] and sw == AFTER) or (t is P.threads[0] and sw == 0)
            if before:
                if u.op == 'M':
                    _, mr = match_txs(L, u)
                    fl = mr['filled_order_ids']
                    removed = S.Or([S.And(S.Ult(S.bv(i, 64), fl.length), veq(x, tid)) for i, x in enumerate(fl.cells)])
                    # an order that offers nothing and cannot replenish leaves the book silently when the matcher visits it
                    # (no trade, not in the filled list): decided by the real match_against on the order's initial value
                    from .exec import State
                    for occ, key, o in pre:
                        st0 = State()
                        root = c.ex.alloc(st0, o, 'order')
                        ret, st1, lv = c.ex.call('OrderType::<()>::match_against', [RefV(root, ()), S.bv(1, 64)], st0)
                        if st1 is None:
                            continue
                        leaves = S.And(lv, S.Eq(ret[0], S.bv(0, 64)), S.Eq(ret[1].tag, S.bv(0, 64)))
                        removed = S.Or(removed, S.And(occ, veq(key, tid), leaves))
                elif u.op in 'CPBX':
                    usome, _, _ = upd_result(u)
                    removed = S.And(usome, is_removal(P, u), veq(u.params['id'], tid))
                else:
                    removed = S.FALSE
                out.append({'name': 'thread %s (%s): not-found although the order rested at the start and the other thread, which '
                                    'ran to completion before this call, neither filled nor removed it' % (t.name, t.op),
                            'goal': S.And(P.live, none_, was, S.Not(removed))})
    return out


def ob_stats(P):
    c, h, L = P.c, P.c.h, P.c.L
    b = h.level_parts(P.pre_level)['stats']
    a = h.level_parts(P.final_level)['stats']
    pre = h.level_parts(P.pre_level)['resting']
    fin = h.level_parts(P.final_level)['resting']
    d = {f: S.bv(0, 64) for f in ('orders_added', 'orders_removed', 'quantity_executed', 'value_executed')}
    filled = []
    for t in P.threads:
        if t.op == 'A':
            d['orders_added'] = S.Add(d['orders_added'], S.bv(1, 64))
        elif t.op == 'M':
            txs, mr = match_txs(L, t)
            for v, tx in txs:
                d['quantity_executed'] = S.Add(d['quantity_executed'], S.Ite(v, tx['quantity'], S.bv(0, 64)))
            fl = mr['filled_order_ids']
            filled += [(S.Ult(S.bv(i, 64), fl.length), x) for i, x in enumerate(fl.cells)]
    # orders removed by a cancel = orders that were in the book (or were added) and are gone without having been filled
    for idv in all_ids(P):
        was = S.Or([S.And(occ, veq(key, idv)) for occ, key, o in pre] +
                   [S.TRUE for t in P.threads if t.op == 'A' and veq(OrderView(L, t.params['order']).id, idv) is S.TRUE])
        still = S.Or([S.And(occ, veq(key, idv)) for occ, key, o in fin])
        was_filled = S.Or([S.And(v, veq(x, idv)) for v, x in filled])
        d['orders_removed'] = S.Add(d['orders_removed'], S.B2BV(S.And(was, S.Not(still), S.Not(was_filled)), 64))
    d['value_executed'] = S.Mul(d['quantity_executed'], h.P)
    good = S.And([S.Eq(a[f], S.Add(b[f], d[f])) for f in d])
    return {'name': 'quiescence: the four statistics counters moved by exactly the events of both threads',
            'goal': S.And(P.live, S.Not(good))}


def monitor_bounds(P, lv, pc, who, kind):
    """C12: at every shared step the aggregates are within what was ever supplied"""
    c, h = P.c, P.c.h
    parts = h.level_parts(lv)
    nmax = c.pre['N'] + sum(1 for t in P.threads if t.op == 'A')
    good = S.And(S.Ule(S.ZExt(parts['visible'], W), c.total_supplied), S.Ule(S.ZExt(parts['hidden'], W), c.total_supplied),
                 S.Ule(parts['count'], S.bv(nmax, 64)))
    g = S.And(pc, S.Not(good))
    if g is not S.FALSE:
        P.monitor_obls.append((g, who.name if who else '-', kind))


# ---------------------------------------------------------------- solving

def describe_model(P, model):
    c, L = P.c, P.c.L
    parts = []
    for i, (pr, o) in enumerate(zip(c.pre['present'], c.pre['orders'])):
        if conc(pr, model):
            (vn, d), = order_json(L, conc(o, model)).items()
            parts.append('%s#%02d(%s/h%s)' % (vn, i + 1, d.get('quantity', d.get('visible_quantity')), d.get('hidden_quantity', 0)))
    tick = []
    for tp, idv, t in c.pre['tickets']:
        if conc(tp, model):
            tick.append('%02x' % conc(t, model))
    s = 'resting ' + ', '.join(parts) + '; tickets [' + ' '.join(tick) + ']'
    for t in P.threads:
        if t.op == 'A':
            (vn, d), = order_json(L, conc(t.params['order'], model)).items()
            s += ' | %s: add %s#%s(%s)' % (t.name, vn, d['id'][-2:], d.get('quantity', d.get('visible_quantity')))
        elif t.op == 'M':
            s += ' | %s: match %d' % (t.name, conc(t.params['q'], model))
        elif t.op == 'N':
            s += ' | %s: %d x next()' % (t.name, t.params['n'])
        elif t.op in 'uorf':
            what = {'u': 'queue.push', 'o': 'queue.pop', 'r': 'queue.remove', 'f': 'queue.find'}[t.op]
            if t.op == 'u':
                what += ' #%s' % order_id_str(conc(OrderView(L, t.params['order']).id, model))[-2:]
            elif t.op in 'rf':
                what += ' #%s' % order_id_str(conc(t.params['id'], model))[-2:]
            s += ' | %s: %s' % (t.name, what)
        elif t.op in 'PBX':
            s += ' | %s: %s #%s p=%d%s' % (t.name, {'P': 'UpdatePrice', 'B': 'UpdatePriceAndQuantity', 'X': 'Replace'}[t.op],
                                         order_id_str(conc(t.params['id'], model))[-2:], conc(t.params['price'], model),
                                         (' q=%d' % conc(t.params['qty'], model)) if 'qty' in t.params else '')
        elif t.op == 'C':
            s += ' | %s: cancel #%s' % (t.name, order_id_str(conc(t.params['id'], model))[-2:])
        else:
            s += ' | %s: amend #%s to %d' % (t.name, order_id_str(conc(t.params['id'], model))[-2:], conc(t.params['qty'], model))
    sch = schedule_of(P, model)
    for t in P.threads[1:]:
        k = sch[t.name]
        s += ' | %s runs %s' % (t.name, ('after %d shared steps of %s' % (k, P.threads[0].name)) if k is not None
                                else 'after ' + P.threads[0].name)
    return s


def schedule_of(P, model):
    """native schedule: number of shared steps thread A performs before B runs (dynamic count on the model's path)"""
    out = {}
    outer = P.threads[0]
    for t in P.threads[1:]:
        sw = conc(t.sw, model)
        if sw >= t.count:
            out[t.name] = None  # after A
            continue
        k = 0
        for idx, guard, kind in outer.instances:
            if idx >= sw:
                break
            if S.evaluate([guard], model, _uf_eval)[0]:
                k += 1
        out[t.name] = k
    return out


def thread_script(P, model):
    c, L = P.c, P.c.L
    ops = []
    for t in P.threads:
        if t.op == 'A':
            ops.append({'thread': t.name, 'op': 'add', 'order': order_json(L, conc(t.params['order'], model))})
        elif t.op == 'M':
            ops.append({'thread': t.name, 'op': 'match', 'quantity': conc(t.params['q'], model),
                        'taker': order_id_str(conc(t.params['taker'], model))})
        elif t.op == 'N':
            ops.append({'thread': t.name, 'op': 'next', 'n': t.params['n']})
        elif t.op == 'u':
            ops.append({'thread': t.name, 'op': 'qpush', 'order': order_json(L, conc(t.params['order'], model))})
        elif t.op == 'o':
            ops.append({'thread': t.name, 'op': 'qpop'})
        elif t.op in 'rf':
            ops.append({'thread': t.name, 'op': 'qremove' if t.op == 'r' else 'qfind', 'id': order_id_str(conc(t.params['id'], model))})
        elif t.op in 'PBX':
            d = {'thread': t.name, 'op': 'update', 'kind': {'P': 'UpdatePrice', 'B': 'UpdatePriceAndQuantity', 'X': 'Replace'}[t.op],
                 'id': order_id_str(conc(t.params['id'], model)), 'price': conc(t.params['price'], model)}
            if 'qty' in t.params:
                d['quantity'] = conc(t.params['qty'], model)
            if t.op == 'X':
                d['side'] = 'BUY'
            ops.append(d)
        elif t.op == 'C':
            ops.append({'thread': t.name, 'op': 'update', 'kind': 'Cancel', 'id': order_id_str(conc(t.params['id'], model))})
        else:
            ops.append({'thread': t.name, 'op': 'update', 'kind': 'UpdateQuantity', 'id': order_id_str(conc(t.params['id'], model)),
                        'quantity': conc(t.params['qty'], model)})
    d = {'kind': 'concurrent', 'price': conc(c.h.P, model), 'namespace': uuid_str(conc(c.h.ns, model)),
         'setup': state_recipe(c, model), 'threads': ops, 'schedule': schedule_of(P, model)}
    if getattr(P, 'gen_counter0', None) is not None:
        d['generator_counter'] = conc(P.gen_counter0, model)
    if c.cube.get('queue_only'):
        d['queue_only'] = True
    return d


def predicted(P, model):
    """what the encoding predicts for the observable outcome of the schedule"""
    c, h, L = P.c, P.c.h, P.c.L
    out = {'threads': {}}
    for t in P.threads:
        if t.op == 'M':
            txs, mr = match_txs(L, t)
            out['threads'][t.name] = {'remaining': conc(mr['remaining_quantity'], model),
                                      'transactions': [{'maker': order_id_str(conc(tx['maker_order_id'], model)), 'quantity': conc(tx['quantity'], model)}
                                                       for v, tx in txs if conc(v, model)]}
        elif t.op == 'N':
            out['threads'][t.name] = {'ids': [uuid_str(conc(x, model)) for x in t.ret]}
        elif t.op == 'u':
            out['threads'][t.name] = {'pushed': True}
        elif t.op in 'orf':
            v = conc(t.ret, model)
            out['threads'][t.name] = {'q': 'some', 'order': order_json(L, v[2][0])} if v[1] == 1 else {'q': 'none'}
        elif t.op in 'CQPBX':
            some, none_, got = upd_result(t)
            if conc(some, model):
                out['threads'][t.name] = {'update': 'some', 'order': order_json(L, conc(got, model))}
            else:
                out['threads'][t.name] = {'update': 'none' if conc(none_, model) else 'err'}
        else:
            out['threads'][t.name] = {'added': True}
    parts = h.level_parts(P.final_level)
    out['visible'] = conc(parts['visible'], model)
    out['hidden'] = conc(parts['hidden'], model)
    out['count'] = conc(parts['count'], model)
    out['orders'] = sorted(canon(order_json(L, conc(o, model))) for occ, k, o in parts['resting'] if conc(occ, model))
    return out




def placements(cube):
    """number of shared-step instances of the outer thread (dry symbolic run, no solving)"""
    P = run_program(dict(cube, sw=[AFTER]), None)
    return len(P.threads[0].instances)


def expand_placements(cubes):
    """one cube per placement of thread B inside thread A (plus 'after A')"""
    from .framework import parallel_map
    res = parallel_map([(placements, (cb,)) for cb in cubes])
    out = []
    for cb, (n, err) in zip(cubes, res):
        if err:
            raise Unsupported('cannot count placements for %s: %s' % (cb['threads'], err))
        for i in list(range(n)) + [AFTER]:
            out.append(dict(cb, sw=[i], nplacements=n))
    return out


def solve_program(cube, obl_fn, monitor=False, timeout=300):
    t0 = time.time()
    smt.STATS.__init__()
    P = run_program(cube, monitor_bounds if monitor else None)
    c = P.c
    t_sym = time.time() - t0
    obls = obl_fn(P)
    assumptions = base_assumptions(c, assume_unwind=True)
    goals = [o['goal'] for o in obls]
    res = smt.run_batch(assumptions, goals, timeout=timeout, label='+'.join(cube['threads']),
                        model_vars=c.inp.vars + c.models.clock_vars)
    # unexpected sat answers (candidate violations): ask for a model whose pre-state has no order with two available
    # tickets, because such a state is rebuilt on the real crate with add / cancel only (no amendment in the setup).
    # The verdict is that of the plain goal; only the model that is replayed changes.
    cand = [i for i, (o, (v, _)) in enumerate(zip(obls, res))
            if v == 'sat' and o.get('kind', 'obligation') == 'obligation' and not o.get('known')]
    if cand and c.pre:
        nodup = []
        tk = c.pre['tickets']
        for a_ in range(len(tk)):
            for b_ in range(a_):
                nodup.append(S.Not(S.And(tk[a_][0], tk[b_][0], S.Eq(tk[a_][2], tk[b_][2]))))
        res = list(res)
        res2 = smt.run_batch(assumptions, [S.And(obls[i]['goal'], S.And(nodup)) for i in cand], timeout=timeout,
                             label='+'.join(cube['threads']) + '/prefer', model_vars=c.inp.vars + c.models.clock_vars)
        for i, (v, m) in zip(cand, res2):
            if v == 'sat':
                res[i] = (v, m)
    out = []
    for o, (verdict, model) in zip(obls, res):
        r = {'name': o['name'], 'kind': o.get('kind', 'obligation'), 'verdict': verdict,
             'cube': '|'.join(cube['threads']) + ('@%s' % ('end' if cube['sw'][0] == AFTER else cube['sw'][0]) if cube.get('sw') else ''),
             'known': o.get('known'), 'required': o.get('required', True)}
        if verdict == 'unknown':
            r['why'] = model
        if verdict == 'sat':
            if not all(S.evaluate([o['goal']] + assumptions, model, _uf_eval)):
                r['verdict'] = 'unknown'
                r['why'] = 'model rejected by own evaluator'
            else:
                try:
                    r['desc'] = describe_model(P, model)
                    r['script'] = thread_script(P, model)
                    r['pred'] = predicted(P, model)
                except Exception as e:  # noqa
                    r['verdict'] = 'unknown'
                    r['why'] = 'cannot build schedule script: %r' % (e,)
        out.append(r)
    st = cube_stats(c.ex, c.models)
    st['symex_s'] = round(t_sym, 2)
    st['shared_step_instances'] = [len(t.instances) for t in P.threads]
    return {'cube': cube, 'results': out, 'stats': st, 'wall': round(time.time() - t0, 2)}


def compare_conc(script, pred, nat):
    diffs = []
    if 'error' in nat or 'threads' not in nat:
        return ['native driver: %r' % (nat,)]
    if script['schedule'].get('B') is not None and not nat.get('switched_inside'):
        diffs.append('the real run never reached the switch point (A made %s shared steps, schedule asked for %s)'
                     % (nat.get('a_steps'), script['schedule'].get('B')))
    for name, e in pred['threads'].items():
        r = nat['threads'].get(name, {})
        if 'panic' in r:
            diffs.append('thread %s panicked natively' % name)
            continue
        if 'q' in e:
            if r.get('q') != e['q'] or (e['q'] == 'some' and canon(r.get('order')) != canon(e['order'])):
                diffs.append('thread %s queue result: predicted %s native %s' % (name, canon(e), canon(r)))
        elif 'pushed' in e:
            pass
        elif 'ids' in e:
            if r.get('ids') != e['ids']:
                diffs.append('thread %s ids: predicted %s native %s' % (name, e['ids'], r.get('ids')))
        elif 'transactions' in e:
            m = r.get('match', {})
            got = [{'maker': t['maker'], 'quantity': t['quantity']} for t in m.get('transactions', [])]
            if got != e['transactions'] or m.get('remaining') != e['remaining']:
                diffs.append('thread %s match: predicted %s rem %s, native %s rem %s' % (name, e['transactions'], e['remaining'], got, m.get('remaining')))
        elif 'update' in e:
            if r.get('update') != e['update']:
                diffs.append('thread %s update: predicted %s native %s' % (name, e['update'], r.get('update')))
            elif e['update'] == 'some' and canon(r.get('order')) != canon(e['order']):
                diffs.append('thread %s returned order: predicted %s native %s' % (name, canon(e['order']), canon(r.get('order'))))
    s = nat['state']
    for k in ('visible', 'hidden', 'count'):
        if script.get('queue_only'):
            break
        if s[k] != pred[k]:
            diffs.append('%s: predicted %r native %r' % (k, pred[k], s[k]))
    no = sorted(canon(o) for o in s['orders'])
    if no != pred['orders']:
        diffs.append('resting orders: predicted %r native %r' % (pred['orders'], no))
    return diffs


def _solve_for_pool(cube, obl_name, monitor, timeout):
    import importlib
    mod, fn = obl_name.rsplit('.', 1)
    f = getattr(importlib.import_module(mod), fn)
    return solve_program(cube, f, monitor=monitor, timeout=timeout)


def run_conc(run, programs, obl_name, monitor=False, timeout=300, known_keys=(), base=None):
    """programs: list of thread-op strings, e.g. ['CM','QM']; every placement of B in A is its own cube"""
    from .framework import parallel_map, run_native
    base = base or {}
    # two concurrent sweeps: one maker visit each (end-to-end equalities over two multi-iteration sweeps do not finish)
    cubes = expand_placements([dict(base, threads=list(p), **({'match_unwind': 1} if p.count('M') >= 2 else {})) for p in programs])
    results = parallel_map([(_solve_for_pool, (cb, obl_name, monitor, timeout)) for cb in cubes])
    candidates = []
    nwit = 0
    for cb, (res, err) in zip(cubes, results):
        if err:
            run.inconclusive_('program %s placement %s: %s' % (''.join(cb['threads']), cb['sw'], err))
            continue
        run.absorb_stats(res['stats'])
        for r in res['results']:
            if r['kind'] == 'obligation':
                run.obligations += 1
                if r['verdict'] == 'unsat':
                    run.discharged += 1
                elif r['verdict'] == 'sat':
                    candidates.append(r)
                else:
                    run.inconclusive_('%s obligation %s: %s' % (r['cube'], r['name'], r.get('why')))
            else:
                run.witnesses += 1
                if r['verdict'] == 'sat':
                    run.witness_sat += 1
                    nat = run_native(r['script'], cfg_hooks=True)
                    run.replayed += 1
                    diffs = compare_conc(r['script'], r['pred'], nat)
                    if diffs:
                        run.inconclusive_('witness of %s: encoding and real crate disagree under the schedule: %s | %s'
                                          % (r['cube'], '; '.join(diffs[:3]), r['desc']))
                    else:
                        run.replay_ok += 1
                        if len(run.samples) < 12:
                            run.samples.append({'program': r['cube'], 'schedule': r['desc'], 'native_agrees': True})
                # an unsat witness only means that this placement is not on any path of A (e.g. a step that exists
                # on another branch); vacuity is judged per program below
    # vacuity: every program must have satisfiable placements
    per_prog = {}
    for cb, (res, err) in zip(cubes, results):
        if err:
            continue
        k = ''.join(cb['threads'])
        for r in res['results']:
            if r['kind'] == 'witness':
                d = per_prog.setdefault(k, [0, 0])
                d[0] += 1
                d[1] += 1 if r['verdict'] == 'sat' else 0
    for k, (n, s) in per_prog.items():
        if s == 0:
            run.inconclusive_('vacuous: no placement of program %s is reachable' % k)
    run.extra.setdefault('program_placements', {}).update({k: {'placements': n, 'reachable': s} for k, (n, s) in per_prog.items()})
    run.extra['programs'] = len(run.extra['program_placements'])
    seen = set()
    for r in candidates:
        nat = run_native(r['script'], cfg_hooks=True)
        run.replayed += 1
        diffs = compare_conc(r['script'], r['pred'], nat)
        payload = {'property': run.pid, 'obligation': r['name'], 'program': r['cube'], 'schedule': r['desc'],
                   'script': r['script'], 'predicted': r['pred'], 'native': nat}
        if diffs:
            run.inconclusive_('counterexample for %s (%s) does not reproduce under the schedule: %s | %s'
                              % (r['name'], r['cube'], '; '.join(diffs[:3]), r['desc']))
            continue
        run.replay_ok += 1
        key = r.get('known')
        if key and key in known_keys:
            run.known(key, r['desc'])
            continue
        sig = (r['name'], r['cube'].split('@')[0])
        if sig in seen:
            continue
        seen.add(sig)
        if len(run.violations) < 8:
            run.violation(r['name'][:50], payload)
        else:
            run.violations.append((r['name'], None))
    return results
