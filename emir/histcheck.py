"""Shared machinery of the single-threaded history checks (C01 C02 C04 C06 C07 C15 ...).

A *cube* fixes the sequence of operation kinds (and optionally the order types per slot);
everything else - quantities, thresholds, replenish amounts, flags, match sizes, target ids,
new prices/quantities, timestamps, sides, time-in-force - is symbolic.  The union of the cubes of
a tier is the whole bounded space (exhaustive case split on the op-kind sequence).
"""
import json
import itertools, json, uuid
from . import sym as S
from . import smt
from .values import UNDEF, EnumV, VecV, concretize, veq, merge, Unsupported
from .scenario import make_engine, Inputs, sym_order, sym_value, const_order_id, OrderView
from .history import (Hist, order_json, order_id_str, uuid_str, canon, SIDE, UPDATE_KINDS, TAKER_ID, ABSENT_ID)
from .framework import cube_stats

# op letters: A add next slot, R re-add slot 0's id with fresh parameters, M match,
#             C cancel, Q quantity amend, P price update, B price+quantity, X replace
OPS = 'ARMCQPBX'
UPD = {'C': 'Cancel', 'Q': 'UpdateQuantity', 'P': 'UpdatePrice', 'B': 'UpdatePriceAndQuantity', 'X': 'Replace'}


def match_unwind_for(seq, single=5):
    """loop unrolling of match_order inside a history: deeper for a single match, shallower when several matches
    follow each other (end-to-end equalities over consecutive sweeps are what the solver cannot induct over; the
    inductive cubes cover unbounded iteration counts)"""
    m = seq.count('M')
    if len(seq) >= 4:
        # depth-4 histories: the state a late match starts from is already a deep ite term
        return min(single, 3) if m <= 1 else 2
    return single if m <= 1 else (3 if m == 2 else 2)


def sequences(depth, max_adds, alphabet='AMCQPBX', first_add=True, allow_readd=False):
    out = []
    alpha = alphabet + ('R' if allow_readd and 'R' not in alphabet else '')
    for seq in itertools.product(alpha, repeat=depth):
        if first_add and seq[0] != 'A':
            continue
        if seq.count('A') > max_adds:
            continue
        if 'R' in seq:
            # a re-add needs an earlier add of slot 0 and something that can remove it
            i = seq.index('R')
            if 'A' not in seq[:i] or not any(c in 'MCPBX' for c in seq[seq.index('A') + 1:i]):
                continue
            if seq.count('R') > 1:
                continue
        out.append(''.join(seq))
    return out


class Ctx(object):
    pass


def target_id(inp, name, nslots, absent=True):
    """symbolic target id among the ids of slots 0..nslots-1 (+ one id that is never added)"""
    ids = [i + 1 for i in range(nslots)] + ([ABSENT_ID] if absent else [])
    t = S.bv(ids[-1], 128)
    for k, i in reversed(list(enumerate(ids[:-1]))):
        t = S.Ite(inp.var('%s.is%d' % (name, i), S.B), S.bv(i, 128), t)
    return EnumV(S.bv(0, 64), {0: (t,)})


def build(cube, fixed=None, engine=None):
    """symbolically execute the history of `cube`; returns Ctx"""
    c = Ctx()
    if engine is None:
        ex, L, models = make_engine()
    else:
        ex, L, models = engine
        ex.reset()
        models.reset()
        models.used = {}
    ex.loop_bounds = {'::match_order': cube.get('match_unwind', 5), '::pop': cube.get('pop_unwind', 9)}
    ex.default_loop_bound = cube.get('default_unwind', 6)
    models.map_cap = cube.get('map_cap', 3)
    models.queue_cap = cube.get('queue_cap', 8)
    models.vec_cap = cube.get('vec_cap', 6)
    models.map_iter_symbolic = cube.get('iter_symbolic', False)
    inp = Inputs(fixed, cube.get('qty_mode'))
    h = Hist(ex, L, models, inp, price=(S.bv(cube['price'], 64) if 'price' in cube else None))
    c.ex, c.L, c.models, c.inp, c.h, c.cube = ex, L, models, inp, h, cube
    c.domain = []  # input-domain assumptions (from the property quantifiers)
    c.supplied = []  # every quantity handed to the level (64-bit terms)
    c.slots = []
    c.params = []
    c.pre = None
    if cube.get('pre'):
        arbitrary_state(c, cube['pre'])
    seq = cube['seq']
    nslots_total = seq.count('A') + len(c.slots)
    types = cube.get('types') or [None] * (nslots_total + 1)
    pos_qty = cube.get('positive_quantities', False)
    for k, op in enumerate(seq):
        p = {'op': op}
        if op in 'AR':
            if op == 'A':
                slot = len(c.slots)
                oprice = h.P
                for j, off in enumerate(cube.get('order_price_offsets') or []):
                    oprice = S.Ite(inp.var('o%d.price_off%d' % (slot, j), S.B), S.Add(h.P, S.bv(off, 64)), oprice)
                o = sym_order(L, inp, 'o%d' % slot, variants=types[slot], oid=const_order_id(slot + 1), price=oprice)
                c.slots.append(o)
            else:
                slot = 0
                o = sym_order(L, inp, 'r%d' % k, variants=types[0], oid=const_order_id(1), price=h.P)
                # ids are unique among resting orders: the id must not be resting now
                busy = [S.And(occ, veq(key, const_order_id(1))) for occ, key, _ in h.resting()]
                c.domain.append(S.Not(S.Or(busy)))
            v = OrderView(L, o)
            c.domain.append(S.Not(S.AddOvf(v.displayed, v.hidden)))
            c.supplied.append(S.Add(v.displayed, v.hidden))
            if pos_qty:
                c.domain.append(S.Not(S.Eq(v.displayed, S.bv(0, 64))))
            p['slot'] = slot
            p['order'] = o
            p['rec'] = h.add(o)
        elif op == 'I':
            p.update(loop_iteration(c, k))
        elif op == 'S':
            p['rec'] = read_only_calls(c)
        elif op == 'M':
            q = inp.qty('q%d' % k)
            if cube.get('match_from_one', True):
                c.domain.append(S.Not(S.Eq(q, S.bv(0, 64))))
            p['q'] = q
            taker = None
            if cube.get('taker_may_rest'):
                # the taker's id may be the id of an order resting on the level (the statement puts no restriction on it)
                nids = max(len(c.slots), (c.pre or {}).get('N', 0) if c.pre else 0, 1)
                t = S.bv(TAKER_ID, 128)
                for j in range(nids, 0, -1):
                    t = S.Ite(inp.var('taker%d.is%d' % (k, j), S.B), S.bv(j, 128), t)
                taker = EnumV(S.bv(0, 64), {0: (t,)})
                p['taker'] = taker
            p['rec'] = h.match(q, taker=taker, cut_after=cube.get('cut_after'))
        else:
            kind = UPD[op]
            tgt = target_id(inp, 'tgt%d' % k, max(1, len(c.slots)))
            p['id'] = tgt
            price = qty = side = None
            if op in 'PBX':
                price = inp.var('np%d' % k, 64)
                if cube.get('price_case') == 'same':
                    c.domain.append(S.Eq(price, h.P))
                elif cube.get('price_case') == 'diff':
                    c.domain.append(S.Not(S.Eq(price, h.P)))
            if op in 'QBX':
                qty = inp.qty('nq%d' % k)
                c.supplied.append(qty)
                if pos_qty:
                    c.domain.append(S.Not(S.Eq(qty, S.bv(0, 64))))
            if op == 'X':
                side = EnumV(S.Ite(inp.var('ns%d' % k, S.B), S.bv(1, 64), S.bv(0, 64)), {0: (), 1: ()})
            p['price'], p['qty'], p['side'] = price, qty, side
            p['rec'] = h.update(kind, tgt, price, qty, side)
        p['live'] = h.live
        c.params.append(p)
    # the sum of everything ever supplied fits in 64 bits (quantifier of C01)
    if c.supplied:
        w = 70
        tot = S.bv(0, w)
        for x in c.supplied:
            tot = S.Add(tot, S.ZExt(x, w))
        c.domain.append(S.Ult(tot, S.bv(1 << 64, w)))
    return c


STALE_ID = 0x55
SET_ASIDE_ID = 0x41


def read_only_calls(c):
    """op 'S': every read-only entry point of the level, executed from its MIR"""
    from .values import RefV
    h, ex = c.h, c.ex
    pre = h.resting()
    before = h.level_value()
    called = []

    def call(name, args):
        r, h.st, l = ex.call(name, args, h.st, h._pc())
        h._did(l)
        called.append(name)
        return r
    call('PriceLevel::price', [h.lref])
    call('PriceLevel::visible_quantity', [h.lref])
    call('PriceLevel::hidden_quantity', [h.lref])
    call('PriceLevel::order_count', [h.lref])
    call('PriceLevel::iter_orders', [h.lref])
    call('PriceLevel::snapshot', [h.lref])
    stats = call('PriceLevel::stats', [h.lref])
    sroot = ex.alloc(h.st, stats, 'statsarc')
    for g in ('orders_added', 'orders_removed', 'orders_executed', 'quantity_executed', 'value_executed'):
        call('PriceLevelStatistics::' + g, [RefV(sroot, ())])
    call('<PriceLevelData as From<&PriceLevel>>::from', [h.lref])
    froot = ex.alloc(h.st, ('formatter', 'opaque'), 'fmt')
    call('<PriceLevel as Display>::fmt', [h.lref, RefV(froot, ())])
    rec = {'op': 'read', 'pre': pre, 'post': h.resting(), 'agg': h.aggregates(), 'before': before,
           'after': h.level_value(), 'called': called, 'ret': None}
    h.steps.append(rec)
    return rec


def loop_iteration(c, k):
    """op 'I': one iteration of match_order's loop from an ARBITRARY loop-head state (arbitrary level
    state, arbitrary remaining quantity, arbitrary partial result, arbitrary set-aside list)"""
    from .values import VecV
    from .exec import store_path
    h, L, inp, ex = c.h, c.L, c.inp, c.ex
    # find the loop head: run a throw-away call that is cut at the first loop head
    snap = (h.st.copy(), h.live, len(h.steps), len(ex.panics), len(ex.unwinds), len(ex.cuts), len(ex.unreach),
            dict(c.models.used), c.models.fresh, len(c.models.clock_vars), len(c.models.v5_apps))
    rec0 = h.match(S.bv(1, 64), cut_after=1)
    if not rec0['cuts']:
        raise Unsupported('cannot locate the loop head of match_order')
    fn, block = rec0['cuts'][0]['fn'], rec0['cuts'][0]['block']
    h.st, h.live = snap[0], snap[1]
    del h.steps[snap[2]:]
    del ex.panics[snap[3]:]
    del ex.unwinds[snap[4]:]
    del ex.cuts[snap[5]:]
    del ex.unreach[snap[6]:]
    del c.models.clock_vars[snap[9]:]
    del c.models.v5_apps[snap[10]:]
    q = inp.qty('q%d' % k)
    r = inp.qty('rem%d' % k)
    c.domain.append(S.Ule(r, q))
    tx = sym_value(L, inp, 'Transaction', 'ptx%d' % k)
    ntx = S.ZExt(inp.var('ptx%d.n' % k, 1), 64)
    fid = target_id(inp, 'pfill%d' % k, max(1, len(c.slots)))
    nfill = S.ZExt(inp.var('pfill%d.n' % k, 1), 64)
    names = L.structs['MatchResult']
    res = {'order_id': const_order_id(TAKER_ID), 'transactions': (VecV([tx], ntx),),
           'remaining_quantity': inp.var('prem%d' % k, 64), 'is_complete': inp.var('pcomp%d' % k, S.B),
           'filled_order_ids': VecV([fid], nfill)}
    result = tuple(res[n] for n in names)
    extra = {}
    start = {'q': q, 'remaining': r, 'result': result, 'set_aside': None}
    from .history import match_roles
    if 'set_aside' in match_roles(fn):
        nmax = c.cube.get('set_aside_max', 1)
        sos = []
        nsa = S.ZExt(inp.var('sa%d.n' % k, 2), 64)
        c.domain.append(S.Ule(nsa, S.bv(nmax, 64)))
        lv = h.st.mem[h.root]
        for j in range(nmax):
            so = sym_order(L, inp, 'sa%d_%d' % (k, j), oid=const_order_id(SET_ASIDE_ID + j), price=h.P)
            sv = OrderView(L, so)
            c.domain.append(S.Not(S.AddOvf(sv.displayed, sv.hidden)))
            has = S.Ult(S.bv(j, 64), nsa)
            c.supplied.append(S.Ite(has, S.Add(sv.displayed, sv.hidden), S.bv(0, 64)))
            sos.append(so)
            # the level counters include the set-aside orders (they are still owned by the level)
            for fld, add in (('visible_quantity', S.Ite(has, sv.displayed, S.bv(0, 64))),
                             ('hidden_quantity', S.Ite(has, sv.hidden, S.bv(0, 64))), ('order_count', S.B2BV(has, 64))):
                i = L.field_index('PriceLevel', fld)
                lv = store_path(lv, (i,), S.Add(lv[i], add))
        h.st.mem[h.root] = lv
        extra['set_aside'] = VecV(sos, nsa)
        start['set_aside'] = extra['set_aside']
    rec = h.match_iteration(fn, block, q, r, result, extra)
    rec['start'].update(start)
    return {'q': q, 'rec': rec, 'iteration': True}


def arbitrary_state(c, pre):
    """replace the fresh level by an ARBITRARY level state satisfying the representation invariant:
    N orders (each present or not, any type / quantities), K tickets (each present or not, naming any
    of the N ids or one id that is not in the map), aggregates equal to the sums, every present order
    covered by a present ticket.  Every such state is reachable (see state_recipe), so counterexamples
    found from it are real histories."""
    from .values import MapV, FifoV
    from .exec import store_path
    h, L, inp = c.h, c.L, c.inp
    N, K = pre['N'], pre['K']
    types = c.cube.get('types') or [None] * (N + 4)
    pres, orders = [], []
    entries = []
    for i in range(N):
        oprice = h.P
        if c.cube.get('order_price_offsets'):
            # order prices may differ from the level price (the level never validates them)
            oprice = h.P
            for j, off in enumerate(c.cube['order_price_offsets']):
                oprice = S.Ite(inp.var('o%d.price_off%d' % (i, j), S.B), S.Add(h.P, S.bv(off, 64)), oprice)
        o = sym_order(L, inp, 'o%d' % i, variants=types[i], oid=const_order_id(i + 1), price=oprice)
        pr = inp.var('o%d.present' % i, S.B)
        v = OrderView(L, o)
        c.domain.append(S.Not(S.AddOvf(v.displayed, v.hidden)))
        c.supplied.append(S.Ite(pr, S.Add(v.displayed, v.hidden), S.bv(0, 64)))
        if c.cube.get('positive_quantities'):
            c.domain.append(S.Not(S.Eq(v.displayed, S.bv(0, 64))))
        c.slots.append(o)
        pres.append(pr)
        orders.append(o)
        entries.append((const_order_id(i + 1), pr, o))
    ids = [i + 1 for i in range(N)] + [STALE_ID]
    tickets = []
    fifo = []
    for j in range(K):
        tp = inp.var('t%d.present' % j, S.B)
        t = S.bv(ids[-1], 128)
        for k, i in reversed(list(enumerate(ids[:-1]))):
            t = S.Ite(inp.var('t%d.is%d' % (j, i), S.B), S.bv(i, 128), t)
        idv = EnumV(S.bv(0, 64), {0: (t,)})
        tickets.append((tp, idv, t))
        c.models.fresh += 1
        fifo.append((c.models.fresh, tp, S.FALSE, idv))
    # representation invariant: every present order has a present ticket
    for i in range(N):
        cov = [S.And(tp, S.Eq(t, S.bv(i + 1, 128))) for tp, _, t in tickets]
        c.domain.append(S.Implies(pres[i], S.Or(cov)))
    vis = S.bv(0, 64)
    hid = S.bv(0, 64)
    cnt = S.bv(0, 64)
    for pr, o in zip(pres, orders):
        v = OrderView(L, o)
        vis = S.Add(vis, S.Ite(pr, v.displayed, S.bv(0, 64)))
        hid = S.Add(hid, S.Ite(pr, v.hidden, S.bv(0, 64)))
        cnt = S.Add(cnt, S.B2BV(pr, 64))
    lv = h.st.mem[h.root]
    lv = store_path(lv, (L.field_index('PriceLevel', 'visible_quantity'),), vis)
    lv = store_path(lv, (L.field_index('PriceLevel', 'hidden_quantity'),), hid)
    lv = store_path(lv, (L.field_index('PriceLevel', 'order_count'),), cnt)
    lv = store_path(lv, (h.i_orders, h.i_map), MapV(entries))
    lv = store_path(lv, (h.i_orders, h.i_q), FifoV(fifo))
    names = L.structs['PriceLevelStatistics']
    stats = tuple(inp.var('stats0.%s' % n, 64) for n in names)
    lv = store_path(lv, (h.i_stats,), stats)
    h.st.mem[h.root] = lv
    c.pre = {'N': N, 'K': K, 'present': pres, 'orders': orders, 'tickets': tickets, 'stats': dict(zip(names, stats))}


def state_recipe(c, model):
    """operations that build the arbitrary pre-state of `model` from an empty level through the public
    API (add / same-quantity amend / cancel), so that it can be replayed on the real crate"""
    L = c.L
    pre = c.pre
    ops = []
    live = {}
    for i, (pr, o) in enumerate(zip(pre['present'], pre['orders'])):
        if conc(pr, model):
            live[i + 1] = conc(o, model)
    added = {}
    for tp, idv, t in pre['tickets']:
        if not conc(tp, model):
            continue
        x = conc(t, model)
        if x not in added:
            if x in live:
                oj = order_json(L, live[x])
            else:
                oj = {'Standard': {'id': uuid_str(x), 'price': conc(c.h.P, model), 'quantity': 1, 'side': 'BUY',
                                   'timestamp': 1, 'time_in_force': 'GTC', 'extra_fields': None}}
            added[x] = oj
            ops.append({'op': 'add', 'order': oj})
        else:
            (vn, d), = added[x].items()
            q = d.get('quantity', d.get('visible_quantity'))
            ops.append({'op': 'update', 'kind': 'UpdateQuantity', 'id': uuid_str(x), 'quantity': q})
    for x in added:
        if x not in live:
            ops.append({'op': 'update', 'kind': 'Cancel', 'id': uuid_str(x)})
    return ops


def base_assumptions(c, assume_unwind=True, assume_price_mul=True):
    """domain assumptions + model side conditions (+ bounded unwinding / capacities as assumptions)"""
    a = list(c.domain) + list(c.models.assumptions)
    if assume_price_mul:
        g = [p[0] for p in c.h.price_mul_panics()]
        if g:
            a.append(S.Not(S.Or(g)))
    if assume_unwind and c.ex.unwinds:
        a.append(S.Not(S.Or([u[0] for u in c.ex.unwinds])))
    return a


# ------------------------------------------------------------------ script + prediction from a model

def _uf_eval(name, args, sort):
    if name == 'V5':
        ns, counter = args
        return uuid.uuid5(uuid.UUID(int=ns), str(counter)).int
    raise Unsupported('uf ' + name)


def conc(v, model):
    return concretize(v, model, _uf_eval)


def script_and_prediction(c, model, upto=None):
    """native script (JSON) for the history under `model` and the outputs the encoding predicts;
    upto=k: predictions only for steps < k (step k is expected not to return)"""
    L = c.L
    ops = []
    pred = []
    for k, p in enumerate(c.params):
        rec = p['rec']
        if p['op'] == 'S':
            ops.append({'op': 'observe'})
            e = {'kind': 'read'}
            for kk in ('visible', 'hidden', 'count'):
                e[kk] = conc(rec['agg'][kk], model)
            e['orders'] = sorted(canon(order_json(L, conc(o, model))) for occ, key, o in rec['post'] if conc(occ, model))
            pred.append(e)
            continue
        if upto is not None and k >= upto:
            if p['op'] == 'M':
                ops.append({'op': 'match', 'quantity': conc(p['q'], model),
                            'taker': order_id_str(conc(p['taker'], model)) if p.get('taker') is not None else uuid_str(TAKER_ID)})
            break
        if p['op'] in 'AR':
            ops.append({'op': 'add', 'order': order_json(L, conc(p['order'], model))})
            e = {'kind': 'add'}
        elif p['op'] == 'M':
            ops.append({'op': 'match', 'quantity': conc(p['q'], model),
                        'taker': order_id_str(conc(p['taker'], model)) if p.get('taker') is not None else uuid_str(TAKER_ID)})
            mr = conc(rec['ret'], model)
            # MatchResult fields: order_id, transactions(TransactionList(Vec)), remaining, is_complete, filled
            txs = []
            for t in mr[1][0]:
                txs.append({'transaction_id': uuid_str(t[0]), 'taker': order_id_str(t[1]), 'maker': order_id_str(t[2]),
                            'price': t[3], 'quantity': t[4], 'taker_side': SIDE[t[5][1]]})
            e = {'kind': 'match', 'remaining': mr[2], 'is_complete': bool(mr[3]), 'transactions': txs,
                 'filled': [order_id_str(x) for x in mr[4]]}
        else:
            d = {'op': 'update', 'kind': UPD[p['op']], 'id': order_id_str(conc(p['id'], model))}
            if p['price'] is not None:
                d['price'] = conc(p['price'], model)
            if p['qty'] is not None:
                d['quantity'] = conc(p['qty'], model)
            if p['side'] is not None:
                d['side'] = SIDE[conc(p['side'], model)[1]]
            ops.append(d)
            r = conc(rec['ret'], model)  # Result<Option<Arc<OrderType>>, Err>
            if r[1] == 1:
                e = {'kind': 'update', 'result': 'err'}
            elif r[2][0][1] == 0:
                e = {'kind': 'update', 'result': 'none'}
            else:
                e = {'kind': 'update', 'result': 'some', 'order': order_json(L, r[2][0][2][0])}
        e['visible'] = conc(rec['agg']['visible'], model)
        e['hidden'] = conc(rec['agg']['hidden'], model)
        e['count'] = conc(rec['agg']['count'], model)
        e['orders'] = sorted(canon(order_json(L, conc(o, model))) for occ, k, o in rec['post'] if conc(occ, model))
        if not c.pre and rec.get('after') is not None:
            st_ = dict(zip(L.structs['PriceLevelStatistics'], rec['after'][c.h.i_stats]))
            e['stats'] = {f: conc(st_[f], model) for f in ('orders_added', 'orders_removed', 'orders_executed',
                                                            'quantity_executed', 'value_executed')}
        pred.append(e)
    setup = state_recipe(c, model) if c.pre else []
    script = {'kind': 'level', 'price': conc(c.h.P, model), 'namespace': uuid_str(conc(c.h.ns, model)),
              'ops': setup + ops, 'op_timeout_ms': 3000, 'setup_ops': len(setup)}
    return script, pred


def compare_native(script, pred, native):
    """list of differences between the encoding's prediction and what the real crate did"""
    diffs = []
    res = native.get('results')
    if res is None:
        return ['native driver error: %r' % (native,)]
    k0 = script.get('setup_ops', 0)
    if len(res) < k0:
        return ['native stopped inside the state set-up: %r' % (res[-1] if res else None,)]
    res = res[k0:]
    for i, e in enumerate(pred):
        if i >= len(res):
            diffs.append('step %d: native stopped early (%r)' % (i, res[-1] if res else None))
            break
        r = res[i]
        if 'panic' in r or 'timeout' in r:
            diffs.append('step %d: native %s' % (i, 'panic: %s' % r.get('panic') if 'panic' in r else 'timeout'))
            break
        if e['kind'] == 'match':
            m = r['match']
            for k in ('remaining', 'is_complete', 'filled'):
                if m[k] != e[k]:
                    diffs.append('step %d match.%s: predicted %r native %r' % (i, k, e[k], m[k]))
            if m['transactions'] != e['transactions']:
                diffs.append('step %d transactions: predicted %r native %r' % (i, e['transactions'], m['transactions']))
        elif e['kind'] == 'update':
            if r['update'] != e['result']:
                diffs.append('step %d update result: predicted %r native %r' % (i, e['result'], r['update']))
            elif e['result'] == 'some' and canon(r['order']) != canon(e['order']):
                diffs.append('step %d update order: predicted %s native %s' % (i, canon(e['order']), canon(r['order'])))
        s = r['state']
        for k in ('visible', 'hidden', 'count'):
            if s[k] != e[k]:
                diffs.append('step %d %s: predicted %r native %r' % (i, k, e[k], s[k]))
        if 'stats' in e:
            for k in e['stats']:
                if s['stats'][k] != e['stats'][k]:
                    diffs.append('step %d stats.%s: predicted %r native %r' % (i, k, e['stats'][k], s['stats'][k]))
        no = sorted(canon(o) for o in s['orders'])
        if no != e['orders']:
            diffs.append('step %d resting orders: predicted %r native %r' % (i, e['orders'], no))
    return diffs


def describe(script):
    """compact one-line rendering of a native script (for samples / KNOWN-FINDING lines)"""
    parts = []
    for n, op in enumerate(script['ops']):
        if n == script.get('setup_ops', 0) and n:
            parts.append('||')
        if op['op'] == 'add':
            (vn, d), = op['order'].items()
            q = d.get('quantity', d.get('visible_quantity'))
            extra = ''
            if 'hidden_quantity' in d:
                extra = '/h%d' % d['hidden_quantity']
            if vn == 'ReserveOrder':
                extra += ' thr=%d amt=%s auto=%s' % (d['replenish_threshold'], d['replenish_amount'], d['auto_replenish'])
            parts.append('add %s#%s(%d%s ts=%d)' % (vn, d['id'][-2:], q, extra, d['timestamp']))
        elif op['op'] == 'match':
            parts.append('match %d' % op['quantity'])
        elif op['op'] == 'update':
            s = '%s #%s' % (op['kind'], op['id'][-2:])
            if 'price' in op:
                s += ' p=%d' % op['price']
            if 'quantity' in op:
                s += ' q=%d' % op['quantity']
            parts.append(s)
        else:
            parts.append(op['op'])
    return 'P=%d: ' % script['price'] + '; '.join(parts)


# ------------------------------------------------------------------ generic cube worker / driver

def solve_cube(cube, prop_fn, solver='z3', timeout=300, cross=None):
    """worker: build, collect obligations, solve, attach scripts to sat answers"""
    import time
    t0 = time.time()
    smt.STATS.__init__()
    c = build(cube)
    t_sym = time.time() - t0
    obls = prop_fn(c)
    assumptions = base_assumptions(c, assume_unwind=cube.get('assume_unwind', True))
    if not cube.get('assume_unwind', True):
        obls = obls + unwinding_obligations(c)
    out = []
    # obligations may carry extra per-obligation assumptions: group by identity of that list
    goals = [o['goal'] for o in obls]
    res = smt.run_batch(assumptions, goals, solver=solver, timeout=timeout, label=cube['seq'],
                        model_vars=c.inp.vars + c.models.clock_vars)
    if cross:
        res2 = smt.run_batch(assumptions, goals, solver=cross, timeout=timeout, label=cube['seq'] + '/cross',
                             want_model=False)
    # a satisfiable obligation may name a preferred region for its model (one whose consequence is observable on the
    # real crate); the verdict is that of the plain goal, only the model shown / replayed changes
    pref = [i for i, (o, (v, _)) in enumerate(zip(obls, res)) if v == 'sat' and o.get('prefer') is not None]
    if pref:
        res = list(res)
        res3 = smt.run_batch(assumptions, [S.And(obls[i]['goal'], obls[i]['prefer']) for i in pref], solver=solver,
                             timeout=timeout, label=cube['seq'] + '/prefer', model_vars=c.inp.vars + c.models.clock_vars)
        for i, (v, m) in zip(pref, res3):
            if v == 'sat':
                res[i] = (v, m)
    for i, (o, (verdict, model)) in enumerate(zip(obls, res)):
        r = {'name': o['name'], 'kind': o['kind'], 'verdict': verdict, 'cube': cube['seq'],
             'required': o.get('required', True), 'known': o.get('known')}
        if cross:
            r['cross'] = res2[i][0]
            if res2[i][0] != verdict and 'unknown' not in (verdict, res2[i][0]):
                r['verdict'] = 'unknown'
                r['why'] = 'solver disagreement %s=%s %s=%s' % (solver, verdict, cross, res2[i][0])
        if verdict == 'unknown':
            r['why'] = model
        if verdict == 'sat':
            ev = S.evaluate([o['goal']] + assumptions, model, _uf_eval)
            if not all(ev):
                r['verdict'] = 'unknown'
                r['why'] = 'model does not satisfy the query under our own evaluator (printer/solver mismatch)'
            else:
                try:
                    if cube.get('native') is False:
                        raise StopIteration
                    script, pred = script_and_prediction(c, model, upto=o.get('expect_hang') if o.get('expect_hang') is not None else o.get('cut_step'))
                    if o.get('expect_hang') is not None:
                        r['expect_hang'] = o['expect_hang']
                    r['script'] = script
                    r['pred'] = pred
                    r['desc'] = describe(script)
                    if 'extra_pred' in o:
                        r['extra'] = o['extra_pred'](c, model)
                    if 'drain' in o:
                        r['drain'] = o['drain'](c, model)
                        if r['drain'].get('within_call') is None:
                            if r['drain'].get('amend'):
                                # second variant: resting orders that display nothing first get a display of 1 by a
                                # same-price amendment (keeps places), which makes their queue positions observable
                                import copy
                                sa = copy.deepcopy(r['script'])
                                for x in r['drain']['amend']:
                                    sa['ops'].append({'op': 'update', 'kind': 'UpdateQuantity', 'id': x, 'quantity': 1})
                                sa['ops'].append({'op': 'match', 'quantity': (1 << 64) - 1, 'taker': uuid_str(TAKER_ID)})
                                r['script_amend'] = sa
                            r['script']['ops'].append({'op': 'match', 'quantity': (1 << 64) - 1, 'taker': uuid_str(TAKER_ID)})
                except StopIteration:
                    r['desc'] = 'state inside a call (not replayable)'
                except Exception as e:  # noqa
                    r['verdict'] = 'unknown'
                    r['why'] = 'cannot build script: %r' % (e,)
        out.append(r)
    st = cube_stats(c.ex, c.models)
    st['symex_s'] = round(t_sym, 2)
    st['unwind_events'] = len(c.ex.unwinds)
    st['panic_sites'] = len(c.ex.panics)
    return {'cube': cube, 'results': out, 'stats': st, 'wall': round(time.time() - t0, 2)}


def panic_obligations(c, group=6):
    """reachable-panic obligations (other than the assumed price*quantity overflow), in small groups"""
    ps = c.h.other_panics()
    out = []
    for i in range(0, len(ps), group):
        g = ps[i:i + group]
        sites = sorted(set('%s@bb%s' % (p[2].split('::')[-1], p[3]) for p in g))
        out.append({'name': 'no-panic[%d..%d] %s' % (i, i + len(g) - 1, ','.join(sites)[:80]), 'kind': 'obligation',
                    'goal': S.Or([p[0] for p in g])})
    return out


def unwinding_obligations(c):
    """asserted unwinding bounds (used where a check does not want to assume them)"""
    out = []
    for i, u in enumerate(c.ex.unwinds):
        out.append({'name': 'unwinding-assertion[%d] %s' % (i, u[1].split('::')[-1]), 'kind': 'obligation',
                    'goal': u[0]})
    return out


def reach_witness(c):
    return {'name': 'reach:history-executes', 'kind': 'witness', 'goal': c.h.live, 'required': True}


def busy_witness(c):
    """optional stronger witness: every match trades and every update finds its order"""
    conj = [c.h.live]
    for p in c.params:
        rec = p['rec']
        if p['op'] == 'M':
            txs = rec['ret'][1][0]
            conj.append(S.Not(S.Eq(txs.length, S.bv(0, 64))))
        elif p['op'] in 'CQPBX':
            r = rec['ret']
            some = r.payloads.get(0, UNDEF)
            if some is not UNDEF and some:
                conj.append(S.And(S.Eq(r.tag, S.bv(0, 64)), S.Eq(some[0].tag, S.bv(1, 64))))
    return {'name': 'reach:every-op-effective', 'kind': 'witness', 'goal': S.And(conj), 'required': False}


def run_hist(run, prop_fn, cubes, timeout=300, cross=None, native=True, known_keys=()):
    """drive all cubes of a history property; fills `run` (framework.Run)"""
    from .framework import parallel_map, run_native
    tasks = [(solve_cube, (cube, prop_fn, 'z3', timeout, cross)) for cube in cubes]
    results = parallel_map(tasks)
    candidates = []
    for cube, (res, err) in zip(cubes, results):
        if err:
            run.inconclusive_('cube %s: %s' % (cube['seq'], err))
            continue
        run.absorb_stats(res['stats'])
        for r in res['results']:
            if r['kind'] == 'obligation':
                run.obligations += 1
                if r['verdict'] == 'unsat':
                    run.discharged += 1
                elif r['verdict'] == 'sat' and cube.get('native') is False:
                    run.inconclusive_('inductive step fails (cube %s, %s); the pre-state starts inside a call, so it '
                                      'cannot be replayed on the real crate: either the invariant is too weak or the '
                                      'code is wrong (see the history family for a replayable counterexample)'
                                      % (r['cube'], r['name']))
                elif r['verdict'] == 'sat':
                    candidates.append(r)
                else:
                    run.inconclusive_('cube %s obligation %s: %s' % (r['cube'], r['name'], r.get('why')))
            else:
                run.witnesses += 1
                if r['verdict'] == 'sat':
                    run.witness_sat += 1
                    if native and cube.get('native') is not False:
                        run.replayed += 1
                        nat = run_native(r['script'])
                        diffs = compare_native(r['script'], r['pred'], nat)
                        if diffs:
                            run.inconclusive_('witness %s of cube %s: encoding and real crate disagree: %s | %s'
                                              % (r['name'], r['cube'], '; '.join(diffs[:3]), r['desc']))
                        else:
                            run.replay_ok += 1
                            if len(run.samples) < 12:
                                run.samples.append({'cube': r['cube'], 'witness': r['name'], 'history': r['desc'],
                                                    'native_agrees': True})
                elif r['verdict'] == 'unsat':
                    if r.get('required', True):
                        run.inconclusive_('vacuous: witness %s of cube %s is unsatisfiable' % (r['name'], r['cube']))
                else:
                    if r.get('required', True):
                        run.inconclusive_('witness %s of cube %s: %s' % (r['name'], r['cube'], r.get('why')))
    # counterexamples: confirm natively, then classify
    seen = set()
    for r in candidates:
        nat = run_native(r['script'])
        run.replayed += 1
        diffs = compare_native(r['script'], r['pred'], nat)
        payload = {'property': run.pid, 'obligation': r['name'], 'cube': r['cube'], 'history': r['desc'],
                   'script': r['script'], 'predicted': r['pred'], 'native': nat, 'extra': r.get('extra')}
        if r.get('drain') and not diffs:
            # white-box (queue position) violation: confirm through its observable consequence, the maker order
            # of a draining match appended to the script
            dr = r['drain']

            def first_trades(nat_, kk=None, skip=0):
                res = nat_.get('results') or []
                last = (res[kk] if len(res) > kk else {}) if kk is not None else (res[-1] if res else {})
                return [t['maker'] for t in (last.get('match') or {}).get('transactions', [])][skip:]
            if dr.get('within_call') is not None:
                # violation at a loop cut inside a call: its observable consequence is the NEXT maker of that call
                makers = first_trades(nat, r['script'].get('setup_ops', 0) + dr['within_call'], dr.get('skip', 0))
                exp = dr['expected_first']
                payload['drain'] = {'expected_first_maker': exp, 'native_maker_sequence': makers}
                if (makers[0] if makers else None) == exp:
                    diffs = ['queue-position violation is not observable: the call trades %s next as the arrival-order model '
                             'expects' % exp]
            else:
                variants = [('plain', r['script'], nat)]
                if r.get('script_amend'):
                    variants.append(('amended', r['script_amend'], None))
                observed = None
                tried = []
                for vname, sc, nt in variants:
                    if nt is None:
                        nt = run_native(sc)
                        if compare_native(sc, r['pred'], nt):
                            continue
                    makers = first_trades(nt)
                    seq = []
                    for m in makers:
                        if m not in seq:
                            seq.append(m)
                    exp_o = dr.get('expected_order')
                    if vname == 'plain' and exp_o is not None:
                        exp_o = [m for m in exp_o if m not in (dr.get('amend') or [])]
                    mismatch = False
                    if exp_o is not None:
                        # only makers that the drain actually trades are observable
                        seq_f = [m for m in seq if m in exp_o]
                        mismatch = seq_f != [m for m in exp_o if m in seq_f]
                    if not dr.get('subset') and vname == 'plain' and makers and dr.get('expected_first') is not None \
                            and makers[0] != dr['expected_first']:
                        mismatch = True
                    tried.append({'variant': vname, 'expected_order': exp_o, 'native_first_trades': seq})
                    if mismatch:
                        observed = (vname, sc, nt)
                        break
                payload['drain'] = {'expected_first_maker': dr.get('expected_first'), 'amended_to_display': dr.get('amend'),
                                    'variants': tried}
                if observed is None:
                    diffs = ['queue-position violation is not observable: the draining match trades the makers in the order the '
                             'arrival-order model expects (%s)' % json.dumps(tried)[:300]]
                else:
                    payload['script'], payload['native'] = observed[1], observed[2]
        if r.get('expect_hang') is not None and not diffs:
            res = nat.get('results') or []
            kk = r['script'].get('setup_ops', 0) + r['expect_hang']
            if not (len(res) > kk and res[kk].get('timeout')):
                diffs = ['the real crate returned from the call the encoding says never returns: %r'
                         % (res[kk] if len(res) > kk else res[-1:],)]
        if diffs and not r.get('native_decides'):
            run.inconclusive_('counterexample for %s (cube %s) does not reproduce natively: %s | %s'
                              % (r['name'], r['cube'], '; '.join(diffs[:3]), r['desc']))
            continue
        run.replay_ok += 1
        key = r.get('known')
        if key and key in known_keys:
            run.known(key, r['desc'])
            continue
        sig = (r['name'].split(':')[-1], r['cube'])
        if sig in seen:
            continue
        seen.add(sig)
        if len(run.violations) < 8:
            run.violation(r['name'], payload)
        else:
            run.violations.append((r['name'], None))
    return results
