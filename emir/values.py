"""Value model of the MIR executor.

scalar                    -> sym.Term (Bool or BitVec)
struct / tuple / array    -> python tuple of values (may contain python str/int tags for model objects)
enum                      -> EnumV(tag Term(BV64), payloads {variant index: tuple of fields})
reference / raw pointer   -> RefV(root, path)
Vec / slice               -> VecV(cells tuple, length Term(BV64))
"""
from . import sym as S


class Unsupported(Exception):
    pass


class _Undef(object):
    def __repr__(self):
        return 'UNDEF'


UNDEF = _Undef()
UNIT = ()


class EnumV(object):
    __slots__ = ('tag', 'payloads')

    def __init__(self, tag, payloads):
        self.tag = tag
        self.payloads = payloads

    def __repr__(self):
        return 'Enum(%r,%r)' % (self.tag, self.payloads)


class RefV(object):
    __slots__ = ('root', 'path')

    def __init__(self, root, path=()):
        self.root = root
        self.path = path

    def __repr__(self):
        return 'Ref(%r,%r)' % (self.root, self.path)

    def __eq__(self, o):
        return isinstance(o, RefV) and o.root == self.root and o.path == self.path

    def __hash__(self):
        return hash((self.root, self.path))


class VecV(object):
    __slots__ = ('cells', 'length')

    def __init__(self, cells, length):
        self.cells = tuple(cells)
        self.length = length

    def __repr__(self):
        return 'Vec(len=%r,%r)' % (self.length, self.cells)


class MapV(object):
    """model of a concurrent hash map with concrete candidate keys:
    entries = tuple of (key value (all-constant), present Term, value)"""
    __slots__ = ('entries',)

    def __init__(self, entries=()):
        self.entries = tuple(entries)

    def __repr__(self):
        return 'Map(%r)' % (self.entries,)


class FifoV(object):
    """model of an unbounded FIFO as guarded, append-only entries:
    entries = tuple of (entry id (creation order), present Term, popped Term, value)"""
    __slots__ = ('entries',)

    def __init__(self, entries=()):
        self.entries = tuple(entries)

    def __repr__(self):
        return 'Fifo(%r)' % (self.entries,)


def key_repr(v):
    """hashable python form of an all-constant value (or None if not constant)"""
    if isinstance(v, S.Term):
        return v.args[0] if v.op == 'const' else None
    if isinstance(v, tuple):
        r = tuple(key_repr(x) for x in v)
        return None if any(x is None for x in r) else r
    if isinstance(v, EnumV):
        if v.tag.op != 'const':
            return None
        t = v.tag.args[0]
        p = key_repr(v.payloads.get(t, ()))
        return None if p is None else ('e', t, p)
    return None


def enum_const(idx, fields=()):
    return EnumV(S.bv(idx, 64), {idx: tuple(fields)})


def none():
    return enum_const(0)


def some(v):
    return enum_const(1, (v,))


def option(cond, v):
    """Some(v) if cond else None"""
    return EnumV(S.Ite(cond, S.bv(1, 64), S.bv(0, 64)), {0: (), 1: (v,)})


def empty_vec():
    return VecV((), S.bv(0, 64))


def vec_of(items):
    return VecV(tuple(items), S.bv(len(items), 64))


class Poison(object):
    """result of merging incompatible python-level constants; an error only if it is used"""
    __slots__ = ('why',)

    def __init__(self, why):
        self.why = why

    def __repr__(self):
        return 'Poison(%s)' % self.why


def merge(c, a, b):
    """value that equals a when c holds and b otherwise"""
    if a is b:
        return a
    if a is UNDEF:
        return b
    if b is UNDEF:
        return a
    if isinstance(a, Poison):
        return a
    if isinstance(b, Poison):
        return b
    if isinstance(a, S.Term):
        if not isinstance(b, S.Term):
            raise Unsupported('merge term with %r' % (type(b),))
        return S.Ite(c, a, b)
    if isinstance(a, tuple):
        if not isinstance(b, tuple) or len(a) != len(b):
            raise Unsupported('merge tuples of different shape: %r / %r' % (a, b))
        return tuple(merge(c, x, y) for x, y in zip(a, b))
    if isinstance(a, EnumV):
        if not isinstance(b, EnumV):
            raise Unsupported('merge enum with %r' % (b,))
        p = {}
        for k in set(a.payloads) | set(b.payloads):
            x = a.payloads.get(k, UNDEF)
            y = b.payloads.get(k, UNDEF)
            p[k] = merge(c, x, y)
        return EnumV(S.Ite(c, a.tag, b.tag), p)
    if isinstance(a, VecV):
        if not isinstance(b, VecV):
            raise Unsupported('merge vec with %r' % (b,))
        n = max(len(a.cells), len(b.cells))
        ca = a.cells + (UNDEF,) * (n - len(a.cells))
        cb = b.cells + (UNDEF,) * (n - len(b.cells))
        return VecV(tuple(merge(c, x, y) for x, y in zip(ca, cb)), S.Ite(c, a.length, b.length))
    if isinstance(a, RefV):
        if a == b:
            return a
        return Poison('merge of different references %r / %r' % (a, b))
    if isinstance(a, MapV):
        if not isinstance(b, MapV):
            raise Unsupported('merge map with %r' % (b,))
        kb = {key_repr(e[0]): e for e in b.entries}
        out = []
        seen = set()
        for e in a.entries:
            k = key_repr(e[0])
            seen.add(k)
            f = kb.get(k)
            if f is None:
                out.append((e[0], S.And(c, e[1]), e[2]))
            else:
                out.append((e[0], S.Ite(c, e[1], f[1]), merge(c, e[2], f[2])))
        for f in b.entries:
            if key_repr(f[0]) not in seen:
                out.append((f[0], S.And(S.Not(c), f[1]), f[2]))
        return MapV(out)
    if isinstance(a, FifoV):
        if not isinstance(b, FifoV):
            raise Unsupported('merge fifo with %r' % (b,))
        kb = {e[0]: e for e in b.entries}
        ka = {e[0] for e in a.entries}
        out = []
        for e in a.entries:
            f = kb.get(e[0])
            if f is None:
                out.append((e[0], S.And(c, e[1]), e[2], e[3]))
            else:
                out.append((e[0], S.Ite(c, e[1], f[1]), S.Ite(c, e[2], f[2]), merge(c, e[3], f[3])))
        for f in b.entries:
            if f[0] not in ka:
                out.append((f[0], S.And(S.Not(c), f[1]), f[2], f[3]))
        out.sort(key=lambda e: e[0])
        return FifoV(out)
    if a == b:
        return a
    return Poison('merge of %r / %r' % (a, b))


def veq(a, b):
    """structural equality of two values as a Term"""
    if a is b:
        return S.TRUE
    if isinstance(a, S.Term):
        return S.Eq(a, b)
    if isinstance(a, tuple):
        if not isinstance(b, tuple) or len(a) != len(b):
            return S.FALSE
        return S.And([veq(x, y) for x, y in zip(a, b)])
    if isinstance(a, EnumV):
        conj = [S.Eq(a.tag, b.tag)]
        for k in set(a.payloads) | set(b.payloads):
            x = a.payloads.get(k)
            y = b.payloads.get(k)
            if x is None or y is None or x is UNDEF or y is UNDEF:
                # a payload absent on one side: equality requires that neither is this variant
                if x is None or x is UNDEF:
                    conj.append(S.Not(S.Eq(b.tag, S.bv(k, 64))) if (y is not None and y is not UNDEF and len(y))
                                else S.TRUE)
                else:
                    conj.append(S.Not(S.Eq(a.tag, S.bv(k, 64))) if len(x) else S.TRUE)
                continue
            if len(x):
                conj.append(S.Implies(S.Eq(a.tag, S.bv(k, 64)), veq(x, y)))
        return S.And(conj)
    if isinstance(a, VecV):
        conj = [S.Eq(a.length, b.length)]
        n = max(len(a.cells), len(b.cells))
        for i in range(n):
            inb = S.Ult(S.bv(i, 64), a.length)
            if i < len(a.cells) and i < len(b.cells):
                conj.append(S.Implies(inb, veq(a.cells[i], b.cells[i])))
            else:
                conj.append(S.Not(inb))
        return S.And(conj)
    if isinstance(a, MapV):
        if not isinstance(b, MapV):
            return S.FALSE
        ka = {key_repr(e[0]): e for e in a.entries}
        kb = {key_repr(e[0]): e for e in b.entries}
        conj = []
        for k in set(ka) | set(kb):
            x, y = ka.get(k), kb.get(k)
            if x is None or y is None:
                conj.append(S.Not((x or y)[1]))
            else:
                conj.append(S.Eq(x[1], y[1]))
                if x[2] is not y[2]:
                    conj.append(S.Implies(x[1], veq(x[2], y[2])))
        return S.And(conj)
    if isinstance(a, FifoV):
        if not isinstance(b, FifoV):
            return S.FALSE
        ka = {e[0]: e for e in a.entries}
        kb = {e[0]: e for e in b.entries}
        conj = []
        for k in set(ka) | set(kb):
            x, y = ka.get(k), kb.get(k)
            if x is None or y is None:
                e = x or y
                conj.append(S.Not(S.And(e[1], S.Not(e[2]))))
            else:
                conj.append(S.Eq(S.And(x[1], S.Not(x[2])), S.And(y[1], S.Not(y[2]))))
                if x[3] is not y[3]:
                    conj.append(S.Implies(S.And(x[1], S.Not(x[2])), veq(x[3], y[3])))
        return S.And(conj)
    if a is UNDEF or b is UNDEF:
        if a is b:
            return S.TRUE
        raise Unsupported('veq on UNDEF')
    return S.boolc(a == b)


def terms_of(v, out):
    """collect all Terms inside a value"""
    if isinstance(v, S.Term):
        out.append(v)
    elif isinstance(v, tuple):
        for x in v:
            terms_of(x, out)
    elif isinstance(v, EnumV):
        out.append(v.tag)
        for p in v.payloads.values():
            terms_of(p, out)
    elif isinstance(v, VecV):
        out.append(v.length)
        for x in v.cells:
            terms_of(x, out)
    elif isinstance(v, MapV):
        for k, p, x in v.entries:
            out.append(p)
            terms_of(x, out)
    elif isinstance(v, FifoV):
        for _, p, q, x in v.entries:
            out.append(p)
            out.append(q)
            terms_of(x, out)
    return out


def concretize(v, env, uf_eval=None):
    """evaluate a value under a model to plain python data (enums -> (idx, fields))"""
    if isinstance(v, S.Term):
        return S.evaluate([v], env, uf_eval)[0]
    if isinstance(v, tuple):
        return tuple(concretize(x, env, uf_eval) for x in v)
    if isinstance(v, EnumV):
        t = S.evaluate([v.tag], env, uf_eval)[0]
        p = v.payloads.get(t)
        return ('enum', t, concretize(p, env, uf_eval) if p not in (None, UNDEF) else ())
    if isinstance(v, VecV):
        n = S.evaluate([v.length], env, uf_eval)[0]
        return [concretize(v.cells[i], env, uf_eval) for i in range(min(n, len(v.cells)))]
    if isinstance(v, RefV):
        return ('ref', v.root, v.path)
    if v is UNDEF:
        return None
    return v
