"""Concurrency by sequentialisation with a symbolic schedule (mode S1: well-nested preemption).

Thread A executes one operation through the real MIR.  Before every shared-memory step of A (every
atomic / map / queue operation = one call of an environment model) the scheduler may run thread B's
whole operation: under the condition `sw == i` for the i-th step instance.  `sw` is a free variable,
so one formula covers every placement of B inside A (including before A's first and after A's last
step).  With nesting depth 2 a third thread C is placed the same way inside B.
Memory is sequentially consistent; the map/queue operations are atomic (linearizable containers).
"""
from . import sym as S
from .values import UNDEF, EnumV, RefV, VecV, enum_const, merge, veq, Unsupported
from .exec import State, merge_states
from .scenario import OrderView, sym_order, const_order_id
from .history import UPDATE_KINDS, TAKER_ID

SWW = 10


class Thread(object):
    def __init__(self, name, op, params):
        self.name = name
        self.op = op  # 'A' add, 'M' match, 'C' cancel, 'Q' quantity amend
        self.params = params
        self.ret = None
        self.live = S.FALSE
        self.ran = S.FALSE
        self.sw = None
        self.instances = []  # (index, guard, kind) of this thread's own shared steps
        self.monitors = []


class Sched(object):
    def __init__(self, c, threads, depth=1, monitor=None):
        self.c = c
        self.threads = threads  # threads[0] runs outermost, threads[1] nested in it, ...
        self.depth = depth
        self.level = 0
        self.monitor = monitor  # callable(st, guard, who, kind) called at every shared step
        fixed = c.cube.get('sw')  # concrete placement(s) of the nested thread(s): one query per placement
        for i, t in enumerate(threads[1:], 1):
            if fixed is not None and fixed[i - 1] is not None:
                t.sw = S.bv(fixed[i - 1], SWW)
            else:
                t.sw = c.inp.var('sw_%s' % t.name, SWW)
            t.count = 0
            t.results = []

    def run_op(self, t, st, pc):
        """execute thread t's operation from its MIR on state st under condition pc"""
        h, ex = self.c.h, self.c.ex
        p = t.params
        if t.op == 'A':
            r, st, l = ex.call('PriceLevel::add_order', [h.lref, p['order']], st, pc)
        elif t.op == 'M':
            taker = const_order_id(TAKER_ID + ord(t.name[0]) - ord('A'))
            p['taker'] = taker
            r, st, l = ex.call('PriceLevel::match_order', [h.lref, p['q'], taker, h.gref], st, pc)
        elif t.op == 'C':
            r, st, l = ex.call('PriceLevel::update_order', [h.lref, enum_const(UPDATE_KINDS.index('Cancel'), (p['id'],))], st, pc)
        elif t.op == 'Q':
            r, st, l = ex.call('PriceLevel::update_order',
                               [h.lref, enum_const(UPDATE_KINDS.index('UpdateQuantity'), (p['id'], p['qty']))], st, pc)
        elif t.op in 'uorf':
            from .values import RefV as _R
            qref = _R(h.root, (h.i_orders,))
            if t.op == 'u':
                r, st, l = ex.call('OrderQueue::push', [qref, p['order']], st, pc)
            elif t.op == 'o':
                r, st, l = ex.call('OrderQueue::pop', [qref], st, pc)
            elif t.op == 'r':
                r, st, l = ex.call('OrderQueue::remove', [qref, p['id']], st, pc)
            else:
                r, st, l = ex.call('OrderQueue::find', [qref, p['id']], st, pc)
        elif t.op in 'PBX':
            kind = {'P': 'UpdatePrice', 'B': 'UpdatePriceAndQuantity', 'X': 'Replace'}[t.op]
            if t.op == 'P':
                fields = (p['id'], p['price'])
            elif t.op == 'B':
                fields = (p['id'], p['price'], p['qty'])
            else:
                fields = (p['id'], p['price'], p['qty'], enum_const(0))
            r, st, l = ex.call('PriceLevel::update_order', [h.lref, enum_const(UPDATE_KINDS.index(kind), fields)], st, pc)
        elif t.op == 'N':
            ids = []
            l = S.TRUE
            for _ in range(p.get('n', 2)):
                r1, st, l1 = ex.call('UuidGenerator::next', [h.gref], st, S.And(pc, l))
                l = S.And(l, l1)
                if st is None:
                    return None, None, S.FALSE
                ids.append(r1)
            r = tuple(ids)
        else:
            raise Unsupported('thread op ' + t.op)
        return r, st, l

    def hook(self, ex, kind, ref, st, pc):
        lvl = self.level
        me = self.threads[lvl]
        me.instances.append((len(me.instances), pc, kind))
        if self.monitor is not None:
            self.monitor(st, pc, me, kind)
        if lvl + 1 >= len(self.threads) or lvl + 1 > self.depth:
            return st
        nxt = self.threads[lvl + 1]
        i = nxt.count
        nxt.count += 1
        cond = S.Eq(nxt.sw, S.bv(i, SWW))
        return self._place(nxt, st, pc, cond, i)

    def _place(self, nxt, st, pc, cond, i):
        g = S.And(pc, cond)
        if g is S.FALSE:
            return st
        self.level += 1
        base = st
        r, st2, l = self.run_op(nxt, st.copy(), g)
        self.level -= 1
        nxt.results.append((cond, pc, r, l, i))
        if st2 is None:
            return base
        return merge_states([(cond, st2), (S.Not(cond), base)])

    def run(self, st, pc=S.TRUE):
        """run threads[0]; nested threads are placed by the hook; a thread that was not placed inside
        runs after its parent has finished (sw beyond the last step)"""
        ex = self.c.ex
        old = ex.shared_hook
        ex.shared_hook = self.hook
        t0 = self.threads[0]
        try:
            r, st, l = self.run_op(t0, st, pc)
            t0.ret, t0.live = r, l
            if st is None:
                raise Unsupported('outer thread operation has no returning path')
            # remaining placements: after the parent finished (innermost first so that deeper threads can still nest)
            for lvl in range(1, len(self.threads)):
                nxt = self.threads[lvl]
                after = S.Uge(nxt.sw, S.bv(nxt.count, SWW))
                if S.is_const(nxt.sw) and S.cval(nxt.sw) == (1 << SWW) - 1:
                    after = S.TRUE
                self.level = lvl - 1
                st = self._place(nxt, st, S.And(pc, l), after, nxt.count)
                self.level = 0
        finally:
            ex.shared_hook = old
        # merged results of nested threads
        for nxt in self.threads[1:]:
            acc = UNDEF
            live = S.FALSE
            for cond, ppc, r, l, i in nxt.results:
                if r is not None:
                    acc = merge(S.And(cond, ppc), r, acc)
                # the thread ran (exactly once) iff its switch point lies on the path the parent actually took
                live = S.Or(live, S.And(cond, ppc, l))
            nxt.ret, nxt.live = acc, live
        return st
