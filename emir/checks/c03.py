"""C03 - quantity is conserved when threads add, match, cancel and amend concurrently."""
import os
from .. import sym as S
from ..conccheck import ob_invariant, ob_conservation, run_conc
from ..framework import Run, load_known

PROGRAMS_QUICK = ['CM', 'MC', 'QM', 'MQ', 'AM', 'MA', 'CC', 'QC', 'AC', 'AQ', 'PM', 'MP', 'BM', 'MB', 'XC', 'AA']
PROGRAMS_THOROUGH = PROGRAMS_QUICK + ['MM', 'CQ', 'QQ', 'CA', 'QA', 'XM', 'MX', 'BQ', 'PC', 'CP', 'BC', 'CB', 'CX', 'XQ', 'QX', 'PA', 'BA', 'XA', 'XX', 'BB']


def obls(P):
    o = [ob_invariant(P)] + ob_conservation(P)
    o.append({'name': 'reach: both threads complete', 'kind': 'witness', 'goal': P.live})
    return o


CONC_ASSUMPTIONS = [
    'sequentially consistent memory; every atomic / DashMap / SegQueue operation is one atomic step (linearizable containers)',
    'operations: A add, M match, C cancel, Q quantity amend, P price update, B price+quantity update, X replace (new prices symbolic: both the move-away and the same-price case); schedules: every well-nested interleaving of two threads with one operation each (thread B runs completely between two consecutive shared-memory steps of thread A, or before/after A); crossing overlaps are outside the bound',
    'the level starts in an ARBITRARY state with <= N resting orders and <= K queued tickets satisfying the sequential invariants (so any earlier history is covered)',
    'match_order loop unrolled to the stated bound (deeper sweeps excluded)',
    'order price == level price; total supplied quantity fits in 64 bits; price*quantity does not overflow',
]


def base(tier):
    if tier == 'quick':
        return {'pre': {'N': 2, 'K': 3}, 'match_unwind': 2, 'pop_unwind': 6, 'qty_mode': 'full', 'price': 1}
    return {'pre': {'N': 2, 'K': 4}, 'match_unwind': 2, 'pop_unwind': 7, 'qty_mode': 'full', 'price': 3}


def run(tier, seed):
    run = Run('C03', tier, seed)
    progs = PROGRAMS_QUICK if tier == 'quick' else PROGRAMS_THOROUGH
    if os.environ.get('VERIF_CUBES'):
        progs = os.environ['VERIF_CUBES'].split(',')
    b = base(tier)
    run.bounds = {'threads': 2, 'operations_per_thread': 1, 'programs': progs, 'resting_orders_N': b['pre']['N'],
                  'tickets_K': b['pre']['K'], 'match_loop_unwind': b['match_unwind'], 'nesting_depth': 1}
    run.assumptions = CONC_ASSUMPTIONS
    known, fixed = load_known('C03')
    run_conc(run, progs, 'emir.checks.c03.obls', timeout=300, known_keys=[f['key'] for f in known], base=b)
    return run.finish(explanation='two-thread programs executed through the real MIR under a symbolic well-nested schedule; at quiescence the '
                                  'aggregates must equal the sums and every order must satisfy executed + cancelled + resting (<)= supplied')
