"""C02 - every match is fully accounted for and no order is ever over-filled."""
import os
from .. import sym as S
from .. import smt
from ..values import UNDEF, EnumV, RefV, VecV, veq
from ..scenario import OrderView, make_engine, Inputs, sym_value, const_order_id
from ..exec import State
from ..histcheck import match_unwind_for, panic_obligations, reach_witness, busy_witness, sequences, run_hist
from ..framework import Run, parallel_map, cube_stats, VERIF

W = 70


def tx_fields(L, t):
    names = L.structs['Transaction']
    return dict(zip(names, t))


def match_obligations(c, k, p):
    """obligations for the match request executed at step k"""
    h, L = c.h, c.L
    rec = p['rec']
    if rec['ret'] is None:
        return []
    live = p['live']
    mr = dict(zip(L.structs['MatchResult'], rec['ret']))
    txs = mr['transactions'][0]
    filled = mr['filled_order_ids']
    q = p['q']
    out = []

    def ob(name, good):
        out.append({'name': 'step%d:M %s' % (k, name), 'kind': 'obligation', 'goal': S.And(live, S.Not(good))})

    valid = [S.Ult(S.bv(i, 64), txs.length) for i in range(len(txs.cells))]
    T = [tx_fields(L, t) for t in txs.cells]
    # (a) accounting
    tot = S.ZExt(mr['remaining_quantity'], W)
    for v, t in zip(valid, T):
        tot = S.Add(tot, S.Ite(v, S.ZExt(t['quantity'], W), S.bv(0, W)))
    ob('executed+remaining==requested', S.Eq(tot, S.ZExt(q, W)))
    ob('is_complete<=>remaining==0', S.Eq(mr['is_complete'], S.Eq(mr['remaining_quantity'], S.bv(0, 64))))
    ob('result names the taker', veq(mr['order_id'], rec['taker']))
    # (b) every transaction
    pre = rec['pre']
    post = rec['post']
    conj = []
    for v, t in zip(valid, T):
        was = [S.And(occ, veq(key, t['maker_order_id'])) for occ, key, o in pre]
        side_ok = [S.And(occ, veq(key, t['maker_order_id']),
                         S.Not(S.Eq(OrderView(L, o).side.tag, t['taker_side'].tag))) for occ, key, o in pre]
        conj.append(S.Implies(v, S.And(S.Not(S.Eq(t['quantity'], S.bv(0, 64))), S.Eq(t['price'], h.P),
                                       veq(t['taker_order_id'], rec['taker']), S.Or(was), S.Or(side_ok))))
    ob('every transaction: qty>0, level price, taker id, maker was resting, opposite side', S.And(conj))
    # (d) filled ids == makers that traded in this call and are gone afterwards
    fvalid = [S.Ult(S.bv(i, 64), filled.length) for i in range(len(filled.cells))]
    conj = []
    for fv, f in zip(fvalid, filled.cells):
        traded = S.Or([S.And(v, veq(t['maker_order_id'], f)) for v, t in zip(valid, T)])
        still = S.Or([S.And(occ, veq(key, f)) for occ, key, o in post])
        conj.append(S.Implies(fv, S.And(traded, S.Not(still))))
    for v, t in zip(valid, T):
        still = S.Or([S.And(occ, veq(key, t['maker_order_id'])) for occ, key, o in post])
        listed = S.Or([S.And(fv, veq(f, t['maker_order_id'])) for fv, f in zip(fvalid, filled.cells)])
        conj.append(S.Implies(S.And(v, S.Not(still)), listed))
    ob('filled_order_ids == makers that traded and left', S.And(conj))
    # (c) no order trades more than it holds: per resting order, fills + what rests afterwards <= what rested before
    conj = []
    for occ, key, o in pre:
        ov = OrderView(L, o)
        before = S.Add(S.ZExt(ov.displayed, W), S.ZExt(ov.hidden, W))
        fills = S.bv(0, W)
        for v, t in zip(valid, T):
            fills = S.Add(fills, S.Ite(S.And(v, veq(t['maker_order_id'], key)), S.ZExt(t['quantity'], W), S.bv(0, W)))
        after = S.bv(0, W)
        for occ2, key2, o2 in post:
            if veq(key, key2) is S.FALSE:
                continue
            ov2 = OrderView(L, o2)
            after = S.Add(after, S.Ite(S.And(occ2, veq(key, key2)),
                                       S.Add(S.ZExt(ov2.displayed, W), S.ZExt(ov2.hidden, W)), S.bv(0, W)))
        conj.append(S.Implies(occ, S.Ule(S.Add(fills, after), before)))
    ob('per order: fills + remainder <= quantity held before the call (never over-filled)', S.And(conj))
    return out, valid, T


def iteration_obligations(c, k, p):
    """cube I: ONE iteration of the match loop from an arbitrary loop-head state.  Assumed at the loop head (and
    re-established at the next one / at return): sum of the transactions so far + remaining == requested.  Everything the
    iteration appends is checked, so the accounting rules hold for any number of iterations."""
    from .c01 import set_aside_entries
    h, L = c.h, c.L
    rec = p['rec']
    start = rec['start']
    q, r0 = start['q'], start['remaining']
    names = L.structs['MatchResult']
    tn = L.structs['Transaction']
    res0 = dict(zip(names, start['result']))
    t0 = res0['transactions'][0]
    f0 = res0['filled_order_ids']
    pre = rec['pre']
    out = []

    def tsum(txs):
        tot = S.bv(0, W)
        for i, t in enumerate(txs.cells):
            tot = S.Add(tot, S.Ite(S.Ult(S.bv(i, 64), txs.length), S.ZExt(dict(zip(tn, t))['quantity'], W), S.bv(0, W)))
        return tot
    # loop-head invariant assumed for the arbitrary start state
    c.domain.append(S.Eq(S.Add(tsum(t0), S.ZExt(r0, W)), S.ZExt(q, W)))

    def check(where, guard, result, remaining, level, locals_):
        res = dict(zip(names, result))
        txs, fl = res['transactions'][0], res['filled_order_ids']
        parts = h.level_parts(level)
        owned = parts['resting'] + set_aside_entries(locals_)
        good = [S.Eq(S.Add(tsum(txs), S.ZExt(remaining, W)), S.ZExt(q, W)), veq(res['order_id'], rec['taker'])]
        newtx = [(S.And(S.Ult(S.bv(i, 64), txs.length), S.Uge(S.bv(i, 64), t0.length)), dict(zip(tn, t))) for i, t in enumerate(txs.cells)]
        for v, t in newtx:
            was = [S.And(occ, veq(key, t['maker_order_id'])) for occ, key, o in pre]
            side_ok = [S.And(occ, veq(key, t['maker_order_id']), S.Not(S.Eq(OrderView(L, o).side.tag, t['taker_side'].tag)))
                       for occ, key, o in pre]
            good.append(S.Implies(v, S.And(S.Not(S.Eq(t['quantity'], S.bv(0, 64))), S.Eq(t['price'], h.P),
                                           veq(t['taker_order_id'], rec['taker']), S.Or(was), S.Or(side_ok))))
        # filled ids appended by this iteration
        newf = [(S.And(S.Ult(S.bv(i, 64), fl.length), S.Uge(S.bv(i, 64), f0.length)), x) for i, x in enumerate(fl.cells)]
        for fv, f in newf:
            traded = S.Or([S.And(v, veq(t['maker_order_id'], f)) for v, t in newtx])
            still = S.Or([S.And(occ, veq(OrderView(L, o).id, f)) for occ, key, o in owned])
            good.append(S.Implies(fv, S.And(traded, S.Not(still))))
        for v, t in newtx:
            still = S.Or([S.And(occ, veq(OrderView(L, o).id, t['maker_order_id'])) for occ, key, o in owned])
            listed = S.Or([S.And(fv, veq(f, t['maker_order_id'])) for fv, f in newf])
            good.append(S.Implies(S.And(v, S.Not(still)), listed))
        # nothing is created: per order, what this iteration executed + what the level still owns <= what it owned
        for occ, key, o in pre:
            ov = OrderView(L, o)
            before = S.Add(S.ZExt(ov.displayed, W), S.ZExt(ov.hidden, W))
            fills = S.bv(0, W)
            for v, t in newtx:
                fills = S.Add(fills, S.Ite(S.And(v, veq(t['maker_order_id'], key)), S.ZExt(t['quantity'], W), S.bv(0, W)))
            after = S.bv(0, W)
            for occ2, key2, o2 in owned:
                same = veq(OrderView(L, o2).id, key)
                if same is S.FALSE:
                    continue
                ov2 = OrderView(L, o2)
                after = S.Add(after, S.Ite(S.And(occ2, same), S.Add(S.ZExt(ov2.displayed, W), S.ZExt(ov2.hidden, W)), S.bv(0, W)))
            good.append(S.Implies(occ, S.Ule(S.Add(fills, after), before)))
        out.append({'name': 'step%d:I %s: accounting invariant and per-transaction rules for what this iteration appended' % (k, where),
                    'kind': 'obligation', 'goal': S.And(guard, S.Not(S.And(good)))})
    for cut in rec.get('cuts') or []:
        check('at the next loop head', cut['guard'], cut['result'], cut['remaining'], cut['level'], cut['locals'])
        res = dict(zip(names, cut['result']))
        out.append({'name': 'reach: an iteration appends a transaction and a filled id and the loop goes on', 'kind': 'witness',
                    'goal': S.And(cut['guard'], S.Ugt(res['transactions'][0].length, t0.length),
                                  S.Ugt(res['filled_order_ids'].length, f0.length)), 'required': True})
    if rec['ret'] is not None:
        res = dict(zip(names, rec['ret']))
        check('at return', p['live'], rec['ret'], res['remaining_quantity'], h.level_value(), None)
        out.append({'name': 'step%d:I at return: is_complete <=> remaining == 0' % k, 'kind': 'obligation',
                    'goal': S.And(p['live'], S.Not(S.Eq(res['is_complete'], S.Eq(res['remaining_quantity'], S.bv(0, 64)))))})
    return out


def obligations(c):
    out = []
    alltx = []
    h, L = c.h, c.L
    ended = []  # (condition, id term, step, how): the order's life on the level ended, by the API's own account
    for k, p in enumerate(c.params):
        if p['op'] == 'I':
            out += iteration_obligations(c, k, p)
            continue
        rec = p['rec']
        if p['op'] in 'CPBX' and rec.get('ret') is not None:
            ret = rec['ret']
            opt = ret.payloads[0][0]
            took = S.And(p['live'], S.Eq(ret.tag, S.bv(0, 64)), S.Eq(opt.tag, S.bv(1, 64)))
            if p['op'] != 'C':
                took = S.And(took, S.Not(S.Eq(p['price'], h.P)))
            ended.append((took, p['id'], k, 'handed back by an update'))
        elif p['op'] in 'AR':
            oid = OrderView(L, p['order']).id
            ended = [(S.And(cnd, S.Not(veq(oid, tid))), tid, kk, how) for cnd, tid, kk, how in ended]
        if p['op'] != 'M' or p['rec']['ret'] is None:
            continue
        o, valid, T = match_obligations(c, k, p)
        out += o
        alltx += [(S.And(p['live'], v), t['transaction_id']) for v, t in zip(valid, T)]
        # lifetime: an order whose life ended (acknowledged removal, or reported as filled) does not trade again
        for cnd, tid, kk, how in ended:
            bad = [S.And(v, veq(t['maker_order_id'], tid)) for v, t in zip(valid, T)]
            out.append({'name': 'step%d:M an order %s at step %d does not trade afterwards (lifetime bound)' % (k, how, kk),
                        'kind': 'obligation', 'goal': S.And(p['live'], cnd, S.Or(bad))})
        mr = dict(zip(L.structs['MatchResult'], rec['ret']))
        fl = mr['filled_order_ids']
        for i, f in enumerate(fl.cells):
            ended.append((S.And(p['live'], S.Ult(S.bv(i, 64), fl.length)), f, k, 'reported as filled'))
    # transaction ids never repeat within the history (ids are V5(namespace, counter): injectivity assumed)
    if len(alltx) > 1:
        conj = []
        for i in range(len(alltx)):
            for j in range(i):
                conj.append(S.Implies(S.And(alltx[i][0], alltx[j][0]), S.Not(S.Eq(alltx[i][1], alltx[j][1]))))
        out.append({'name': 'transaction ids pairwise distinct', 'kind': 'obligation', 'goal': S.Not(S.And(conj)),
                    'extra_assumptions': 'v5'})
    return out


def v5_axioms(c):
    apps = c.models.v5_apps
    ax = []
    for i in range(len(apps)):
        for j in range(i):
            a, b = apps[i], apps[j]
            ax.append(S.Implies(S.Eq(a[2], b[2]), S.And(S.Eq(a[0], b[0]), S.Eq(a[1], b[1]))))
    return ax


def prop(c):
    c.domain += v5_axioms(c)
    return obligations(c) + [reach_witness(c), busy_witness(c)]


def cubes(tier):
    out = []
    if tier == 'quick':
        n, k, L, depth, nadds, price = 2, 3, 3, 3, 2, 3
    else:
        n, k, L, depth, nadds, price = 3, 4, 4, 4, 2, 3
    out.append({'seq': 'M', 'pre': {'N': n, 'K': k}, 'match_unwind': L, 'pop_unwind': k + L + 1, 'qty_mode': 'full',
                'price': price, 'family': 'one-match-from-arbitrary-state', 'order_price_offsets': [1]})
    out.append({'seq': 'I', 'pre': {'N': n, 'K': k}, 'cut_after': 1, 'pop_unwind': k + 2, 'qty_mode': 'full', 'price': price,
                'family': 'one-iteration-from-arbitrary-loop-head', 'order_price_offsets': [1], 'native': False, 'assume_unwind': False})
    for s in sequences(depth, nadds):
        if 'M' not in s:
            continue
        mu = match_unwind_for(s, 5)
        out.append({'seq': s, 'match_unwind': mu, 'pop_unwind': depth + 3, 'qty_mode': 'full', 'price': price,
                    'family': 'history', 'order_price_offsets': [1]})
    return out


# ---------------------------------------------------------------- incremental MatchResult (add_transaction)

def add_transaction_emir(kmax):
    smt.STATS.__init__()
    ex, L, models = make_engine()
    inp = Inputs(qty_mode='full')
    st = State()
    q0 = inp.var('q0', 64)
    mr, st, _ = ex.call('MatchResult::new', [const_order_id(0x63), q0], st)
    root = ex.alloc(st, mr, 'result')
    names = L.structs['MatchResult']
    goals = []
    gnames = []
    tot = S.bv(0, W)
    for i in range(kmax):
        t = sym_value(L, inp, 'Transaction', 'tx%d' % i)
        qty = t[L.field_index('Transaction', 'quantity')]
        _, st, live = ex.call('MatchResult::add_transaction', [RefV(root, ()), t], st)
        tot = S.Add(tot, S.ZExt(qty, W))
        cur = dict(zip(names, st.mem[root]))
        fits = S.Ule(tot, S.ZExt(q0, W))
        good = S.And(S.Eq(S.ZExt(cur['remaining_quantity'], W), S.Sub(S.ZExt(q0, W), tot)),
                     S.Eq(cur['is_complete'], S.Eq(cur['remaining_quantity'], S.bv(0, 64))),
                     S.Eq(cur['transactions'][0].length, S.bv(i + 1, 64)))
        goals.append(S.And(fits, S.Not(good)))
        gnames.append('after %d appends: remaining == initial - sum, is_complete in step' % (i + 1))
    goals.append(S.Or([p[0] for p in ex.panics]))
    gnames.append('add_transaction never panics')
    res = smt.run_batch([], goals, timeout=120, label='C02/add_transaction')
    return {'results': [{'name': n, 'verdict': r[0], 'model': r[1]} for n, r in zip(gnames, res)],
            'stats': cube_stats(ex, models)}


def run(tier, seed):
    import subprocess, time
    run = Run('C02', tier, seed)
    cs = cubes(tier)
    if os.environ.get('VERIF_CUBES'):
        cs = [c for c in cs if c['seq'] in os.environ['VERIF_CUBES'].split(',')]
    his = [c for c in cs if not c.get('pre')]
    ind = [c for c in cs if c.get('pre')]
    run.bounds = {'one_match_from_arbitrary_state': {'resting_orders_N': ind[0]['pre']['N'], 'tickets_K': ind[0]['pre']['K'],
                                                     'match_loop_unwind': ind[0].get('match_unwind'), 'plus': 'one iteration from an arbitrary loop-head state (any number of iterations by induction)'} if ind else None,
                  'histories': {'depth_D': len(his[0]['seq']) if his else 0, 'cubes': len(his),
                                'match_loop_unwind': sorted(set(c['match_unwind'] for c in his))},
                  'add_transaction_appends': 4, 'quantities': 'free 64-bit', 'level_price': cs[0]['price']}
    from .c01 import STD_ASSUMPTIONS
    run.assumptions = [a for a in STD_ASSUMPTIONS if not a.startswith('order price ==')] + ['order prices range over {level price, level price + 1}: the level does not validate the price of the orders it is given','transaction ids: UUID v5 of (namespace, decimal counter) is injective (uninterpreted function with injectivity axiom)',
                                         'lifetime bound is checked in its inductive form: per match and per resting order, fills + remainder <= quantity held before the call; amendments define a new held quantity']
    run_hist(run, prop, cs, timeout=300 if tier == 'quick' else 900)
    # incremental MatchResult
    (res, err), = parallel_map([(add_transaction_emir, (4,))], jobs=1)
    if err:
        run.inconclusive_('add_transaction E-MIR: ' + err)
    else:
        run.absorb_stats(res['stats'])
        for r in res['results']:
            run.obligations += 1
            if r['verdict'] == 'unsat':
                run.discharged += 1
            elif r['verdict'] == 'sat':
                run.violation('add_transaction ' + r['name'], {'property': 'C02', 'obligation': r['name'], 'model': r['model']})
            else:
                run.inconclusive_('add_transaction %s: %s' % (r['name'], r['model']))
    if os.environ.get('VERIF_NO_KANI') != '1':
        env = dict(os.environ)
        p = subprocess.run([os.path.join(VERIF, 'kani', 'run.sh'), 'c02_add_transaction'], stdout=subprocess.PIPE,
                           stderr=subprocess.STDOUT, universal_newlines=True, env=env)
        line = [l for l in p.stdout.strip().split('\n') if l.startswith('RESULT')]
        run.extra['kani'] = line[-1] if line else p.stdout[-300:]
        run.obligations += 1
        run.solver_queries += 1
        if p.returncode == 0:
            run.discharged += 1
        elif p.returncode == 1:
            run.violation('kani c02_add_transaction', {'property': 'C02', 'harness': 'c02_add_transaction', 'log': p.stdout[-2000:]})
        else:
            run.inconclusive_('Kani c02_add_transaction: ' + (line[-1] if line else 'error'))
    return run.finish(explanation='every match request of every bounded history (and one match from an arbitrary level state) is '
                                  'checked against the accounting rules of the statement; add_transaction is decided by E-MIR and Kani')
