"""C12 - concurrent readers never observe wrapped or impossible aggregates."""
import os
from .. import sym as S
from ..conccheck import run_conc
from ..framework import Run, load_known
from .c03 import CONC_ASSUMPTIONS, base, PROGRAMS_QUICK, PROGRAMS_THOROUGH


def obls(P):
    o = []
    # the monitor is evaluated before every shared-memory step of every thread and at quiescence: a reader
    # stopped at any instant sees these values
    groups = {}
    for g, who, kind in P.monitor_obls:
        groups.setdefault(who, []).append(g)
    for who, gs in sorted(groups.items()):
        o.append({'name': 'at every shared step of thread %s (%d instants): visible, hidden <= total ever supplied; count <= orders ever added' % (who, len(gs)),
                  'goal': S.Or(gs)})
    o.append({'name': 'reach: both threads complete', 'kind': 'witness', 'goal': P.live})
    return o


def run(tier, seed):
    run = Run('C12', tier, seed)
    progs = PROGRAMS_QUICK if tier == 'quick' else PROGRAMS_THOROUGH
    if os.environ.get('VERIF_CUBES'):
        progs = os.environ['VERIF_CUBES'].split(',')
    b = base(tier)
    run.bounds = {'threads': '2 writers + the monitor (a reader stopped at every instant)', 'operations_per_thread': 1, 'programs': progs,
                  'resting_orders_N': b['pre']['N'], 'tickets_K': b['pre']['K'], 'match_loop_unwind': b['match_unwind']}
    run.assumptions = CONC_ASSUMPTIONS + ['the monitor compares the 64-bit counters with the (<= 2^64-1) total supplied: a wrapped value is caught for every total small enough to expose it, which the solver is free to choose']
    known, fixed = load_known('C12')
    run_conc(run, progs, 'emir.checks.c12.obls', monitor=True, timeout=300, known_keys=[f['key'] for f in known], base=b)
    return run.finish(explanation='the aggregate bounds are asserted before every shared-memory step of both writers for every well-nested placement')
