"""C15 - level statistics agree with the events that actually happened (sequential half)."""
import os
from .. import sym as S
from ..values import UNDEF
from ..histcheck import match_unwind_for, reach_witness, busy_witness, sequences, run_hist
from ..framework import Run

FIELDS = ('orders_added', 'orders_removed', 'quantity_executed', 'value_executed')


def stats_of(h, lv):
    return dict(zip(h.L.structs['PriceLevelStatistics'], lv[h.i_stats]))


def obligations(c):
    h, L = c.h, c.L
    out = []
    for k, p in enumerate(c.params):
        rec = p['rec']
        if rec.get('before') is None or rec.get('after') is None or rec.get('ret') is None and p['op'] == 'M':
            continue
        b, a = stats_of(h, rec['before']), stats_of(h, rec['after'])
        d = {f: S.bv(0, 64) for f in FIELDS}
        if p['op'] in 'AR':
            d['orders_added'] = S.bv(1, 64)
        elif p['op'] == 'M':
            mr = dict(zip(L.structs['MatchResult'], rec['ret']))
            txs = mr['transactions'][0]
            names = L.structs['Transaction']
            q = S.bv(0, 64)
            for i, t in enumerate(txs.cells):
                tf = dict(zip(names, t))
                q = S.Add(q, S.Ite(S.Ult(S.bv(i, 64), txs.length), tf['quantity'], S.bv(0, 64)))
            d['quantity_executed'] = q
            d['value_executed'] = S.Mul(q, h.P)
        elif p['op'] in 'CPBX':
            ret = rec['ret']
            opt = ret.payloads[0][0]
            took = S.And(S.Eq(ret.tag, S.bv(0, 64)), S.Eq(opt.tag, S.bv(1, 64)))
            if p['op'] != 'C':
                took = S.And(took, S.Not(S.Eq(p['price'], h.P)))
            d['orders_removed'] = S.B2BV(took, 64)
        good = S.And([S.Eq(a[f], S.Add(b[f], d[f])) for f in FIELDS])
        out.append({'name': 'step%d:%s statistics move by exactly the events of this operation' % (k, p['op']),
                    'kind': 'obligation', 'goal': S.And(p['live'], S.Not(good))})
    return out


def conc_obls(P):
    from ..conccheck import ob_stats
    return [ob_stats(P), {'name': 'reach: both threads complete', 'kind': 'witness', 'goal': P.live}]


def prop(c):
    return obligations(c) + [reach_witness(c), busy_witness(c)]


def cubes(tier):
    out = []
    if tier == 'quick':
        n, k, L, depth, nadds, price = 2, 3, 3, 3, 2, 3
    else:
        n, k, L, depth, nadds, price = 3, 4, 3, 4, 2, 7
    for op in 'ARMCQPBXS':
        out.append({'seq': op, 'pre': {'N': n, 'K': k}, 'match_unwind': L, 'pop_unwind': k + L + 1, 'qty_mode': 'full',
                    'price': price, 'positive_quantities': True, 'family': 'one-op-from-arbitrary-state (arbitrary counters)',
                    'default_unwind': 8})
    for s in sequences(depth, nadds):
        mu = match_unwind_for(s, 4)
        out.append({'seq': s, 'match_unwind': mu, 'pop_unwind': depth + 3, 'qty_mode': 'full', 'price': price,
                    'positive_quantities': True, 'family': 'history'})
    return out


def run(tier, seed):
    run = Run('C15', tier, seed)
    cs = cubes(tier)
    if os.environ.get('VERIF_CUBES'):
        cs = [c for c in cs if c['seq'] in os.environ['VERIF_CUBES'].split(',')]
    run.bounds = {'one_op_from_arbitrary_state': {'resting_orders_N': cs[0]['pre']['N'], 'tickets_K': cs[0]['pre']['K'],
                                                  'match_loop_unwind': cs[0]['match_unwind'], 'counters': 'arbitrary 64-bit start values (inductive over histories)'},
                  'histories': {'depth_D': len(cs[-1]['seq']), 'cubes': len([c for c in cs if not c.get('pre')])},
                  'level_price': cs[0]['price'], 'quantities': 'free 64-bit, positive'}
    from .c01 import STD_ASSUMPTIONS
    run.assumptions = STD_ASSUMPTIONS + ['positive order quantities (quantifier of C15)',
                                         'counters are compared modulo 2^64 (they are wrapping atomics)',
                                         'concurrent half: two threads with one operation each, every well-nested interleaving (see C03 for the schedule bound)']
    run_hist(run, prop, cs, timeout=300 if tier == 'quick' else 900)
    # concurrent half: two threads, every well-nested placement, counters compared with the events at quiescence
    if not os.environ.get('VERIF_CUBES'):
        from ..conccheck import run_conc
        from .c03 import base as cbase
        progs = ['CM', 'MC', 'AM', 'MA', 'CC', 'AC', 'CA', 'AA', 'PM', 'MP', 'PC', 'XC'] + (['MM', 'QM', 'MQ', 'BM', 'MB', 'XM', 'MX', 'PP'] if tier != 'quick' else [])
        b = dict(cbase(tier), price=cs[0]['price'], positive_quantities=True)
        run.bounds['concurrent'] = {'threads': 2, 'operations_per_thread': 1, 'programs': progs, 'match_loop_unwind': b['match_unwind']}
        run_conc(run, progs, 'emir.checks.c15.conc_obls', timeout=300, base=b)
    return run.finish(explanation='per operation, the four counters named by the statement must move by exactly the events of that operation, '
                                  'from arbitrary counter values (so any history length is covered) and inside bounded histories from a new level')
