"""C01 - level aggregates always equal the sums over the resting orders."""
from .. import sym as S
from ..values import UNDEF, EnumV, RefV, VecV
from ..scenario import OrderView
from ..exec import State


def set_aside_entries(locals_):
    """orders a running match_order has set aside (local `set_aside`), as (valid, None, order)"""
    sa = (locals_ or {}).get('set_aside')
    if not isinstance(sa, VecV):
        return []
    return [(S.Ult(S.bv(i, 64), sa.length), None, o) for i, o in enumerate(sa.cells) if o is not UNDEF]


def inv_of_level(h, lv, locals_=None):
    """aggregates == sums over the orders the level owns (order map + orders a running match has set
    aside), read directly from a level value"""
    p = h.level_parts(lv)
    d, hd, cnt = h.sums(p['resting'] + set_aside_entries(locals_))
    return S.And(S.Eq(p['visible'], d), S.Eq(p['hidden'], hd), S.Eq(p['count'], cnt))


def supply(h, lv, locals_, w):
    tot = h.total_supply(lv, w)
    for v, _, o in set_aside_entries(locals_):
        ov = OrderView(h.L, o)
        tot = S.Add(tot, S.Ite(v, S.Add(S.ZExt(ov.displayed, w), S.ZExt(ov.hidden, w)), S.bv(0, w)))
    return tot


def obligations(c):
    h = c.h
    obl = []
    for k, p in enumerate(c.params):
        rec = p['rec']
        for j, cut in enumerate(rec.get('cuts') or []):
            # loop cut of match_order: the invariant (and the representation invariant that the arbitrary
            # pre-state assumes) must hold again at the loop head, so the argument extends to any
            # number of iterations by induction
            w = 70
            start_locals = (rec.get('start') or {}).get('locals')
            sa_ok = [S.Implies(v, S.Not(S.AddOvf(OrderView(h.L, o).displayed, OrderView(h.L, o).hidden)))
                     for v, _, o in set_aside_entries(cut['locals'])]
            good = S.And(inv_of_level(h, cut['level'], cut['locals']), h.rep_invariant(cut['level']), S.And(sa_ok),
                         S.Ule(supply(h, cut['level'], cut['locals'], w), supply(h, rec['pre_level'], start_locals, w)))
            obl.append({'name': 'step%d:%s loop-cut%d invariant re-established' % (k, p['op'], j),
                        'kind': 'obligation', 'goal': S.And(cut['guard'], S.Not(good))})
        if rec['agg'] is None:
            continue
        d, hd, cnt = h.sums(rec['post'])
        a = rec['agg']
        ok = S.And(S.Eq(a['visible'], d), S.Eq(a['hidden'], hd), S.Eq(a['count'], cnt),
                   S.Eq(a['total'], S.Add(a['visible'], a['hidden'])))
        if c.pre:
            w = 70
            ok = S.And(ok, h.rep_invariant(h.level_value()) if k == len(c.params) - 1 else S.TRUE)
        obl.append({'name': 'step%d:%s aggregates==sums' % (k, p['op']), 'kind': 'obligation',
                    'goal': S.And(p['live'], S.Not(ok))})
    return obl


def prop(c):
    from ..histcheck import match_unwind_for, panic_obligations, reach_witness, busy_witness
    return obligations(c) + panic_obligations(c) + [reach_witness(c), busy_witness(c)]


def cubes(tier):
    from ..histcheck import sequences, match_unwind_for
    out = []
    if tier == 'quick':
        n, k, depth, nadds, price = 2, 3, 3, 2, 1
    else:
        n, k, depth, nadds, price = 3, 5, 4, 3, 3
    # family I: one operation from an ARBITRARY level state satisfying the invariant (inductive step;
    # match_order is cut at its loop head after one iteration, so any number of iterations is covered)
    for op in 'ARMICQPBX':
        out.append({'seq': op, 'pre': {'N': n, 'K': k}, 'cut_after': 1, 'pop_unwind': k + 2, 'qty_mode': 'full',
                    'price': price, 'assume_unwind': False, 'family': 'inductive', 'native': op != 'I'})
    # family H: complete histories from an empty level (end-to-end, validated against the real crate)
    for s in sequences(depth, nadds):
        mu = match_unwind_for(s, 5)
        out.append({'seq': s, 'match_unwind': mu, 'pop_unwind': depth + 3, 'qty_mode': 'full', 'price': price,
                    'family': 'history'})
    return out


def run(tier, seed):
    from ..framework import Run, load_known
    from ..histcheck import run_hist
    run = Run('C01', tier, seed)
    cs = cubes(tier)
    if os.environ.get('VERIF_CUBES'):
        cs = [c for c in cs if c['seq'] in os.environ['VERIF_CUBES'].split(',')]
    ind = [c for c in cs if c.get('pre')]
    his = [c for c in cs if not c.get('pre')]
    run.bounds = {
        'inductive': {'resting_orders_N': ind[0]['pre']['N'] if ind else 0, 'queued_tickets_K': ind[0]['pre']['K'] if ind else 0,
                      'operations': [c['seq'] for c in ind], 'match_loop': 'cut at loop head (any number of iterations by induction)',
                      'pop_loop_unwind': 'asserted', 'history_length': 'unbounded (inductive invariant)'},
        'histories': {'depth_D': len(his[0]['seq']) if his else 0, 'max_adds': max([c['seq'].count('A') for c in his] or [0]),
                      'match_loop_unwind': sorted(set(c['match_unwind'] for c in his)), 'cubes': len(his)},
        'quantities': 'free 64-bit', 'level_price': cs[0]['price'], 'order_types': 'all 7, symbolic'}
    run.assumptions = STD_ASSUMPTIONS
    run_hist(run, prop, cs, timeout=300 if tier == 'quick' else 900)
    return run.finish(explanation=EXPLANATION)


import os
EXPLANATION = ('bounded symbolic execution of the real MIR of PriceLevel/OrderQueue/OrderType over every history '
               'of the stated depth; after every step the aggregates read through the API are compared with the '
               'sums over the resting orders; the solver decides each step for all 64-bit parameter values')
STD_ASSUMPTIONS = [
    'order price == level price (documented use)',
    'sum of all quantities ever supplied (displayed+hidden of every add, every amend quantity) fits in 64 bits',
    'price*quantity in record_execution does not overflow (quantifier: price*quantity sums fit in 64 bits); level price is the constant given in bounds',
    'history family: match_order / OrderQueue::pop loops unrolled to the stated bounds, deeper runs excluded (termination is C06); inductive family: no unwinding assumption (loop cut + asserted pop bound)',
    'inductive family: the arbitrary pre-state has at most N resting orders and K queued tickets; every such state is reachable through the public API (the replay script builds it)',
    'DashMap and SegQueue are linearizable map / FIFO (environment models, DESIGN.md 2.3); clock values arbitrary',
    'rustc nightly MIR (debug-assertions off, overflow-checks on) describes the code the stable compiler builds',
]
