"""C19 - the exported order queue is a FIFO with lookup and removal by id (API semantics and list constructors)."""
import os, time
from .. import sym as S
from .. import smt
from ..values import UNDEF, EnumV, RefV, VecV, veq, merge, vec_of
from ..scenario import make_engine, Inputs, sym_order, const_order_id, OrderView
from ..exec import State, merge_states
from ..history import order_json, order_id_str, uuid_str, canon
from ..histcheck import conc, _uf_eval
from ..framework import Run, load_known, parallel_map, cube_stats, run_native

OPS = ['push', 'pop', 'find', 'remove', 'observe']
NIDS = 3


def id_sel(inp, name):
    """one of the ids Uuid(1), Uuid(2), Ulid(1): two id formats, and two DIFFERENT ids that share their 128-bit value.
    Returns (OrderId value, label in 1..3 used by the reference model as the id's identity)"""
    b1 = inp.var('%s.is1' % name, S.B)
    b2 = inp.var('%s.is2' % name, S.B)
    label = S.Ite(b1, S.bv(1, 128), S.Ite(b2, S.bv(2, 128), S.bv(3, 128)))
    is_ulid = S.And(S.Not(b1), S.Not(b2))
    val = S.Ite(S.And(S.Not(b1), b2), S.bv(2, 128), S.bv(1, 128))
    return EnumV(S.Ite(is_ulid, S.bv(1, 64), S.bv(0, 64)), {0: (val,), 1: (val,)}), label


def history(depth):
    """one symbolic history of `depth` calls on a fresh queue; returns everything the obligations need"""
    ex, L, models = make_engine()
    ex.loop_bounds = {'::pop': depth + 2}
    ex.default_loop_bound = depth + 3
    inp = Inputs(qty_mode='full')
    st = State()
    q, st, _ = ex.call('OrderQueue::new', [], st)
    root = ex.alloc(st, q, 'queue')
    qref = RefV(root, ())
    spec = []  # entries (live Term, id term(128), order value)
    steps = []
    live_all = S.TRUE
    dom = []
    repushed = S.FALSE
    for k in range(depth):
        kind = S.bv(len(OPS) - 1, 8)
        for i in range(len(OPS) - 2, -1, -1):
            kind = S.Ite(inp.var('k%d.is_%s' % (k, OPS[i]), S.B), S.bv(i, 8), kind)
        idv, idt = id_sel(inp, 'id%d' % k)
        order = sym_order(L, inp, 'ord%d' % k, oid=idv, variants=[0, 1, 6])
        is_ = [S.Eq(kind, S.bv(i, 8)) for i in range(len(OPS))]
        # domain: an id is pushed only while it is not queued (pushed once, or re-pushed after removal / pop)
        queued = S.Or([S.And(lv, S.Eq(it, idt)) for lv, it, _ in spec])
        dom.append(S.Implies(is_[0], S.Not(queued)))
        ever = S.Or([S.Eq(it, idt) for lv, it, _ in spec])
        repushed = S.Or(repushed, S.And(is_[0], ever))
        results = []
        rec = {'k': k, 'kind': kind, 'is': is_, 'id': idv, 'idt': idt, 'order': order}
        # --- real code, one branch per call kind
        s0 = st
        s, l0 = s0.copy(), S.TRUE
        _, s, l0 = ex.call('OrderQueue::push', [qref, order], s, is_[0])
        results.append((is_[0], s))
        s = s0.copy()
        rec['pop'], s, l1 = ex.call('OrderQueue::pop', [qref], s, is_[1])
        results.append((is_[1], s))
        s = s0.copy()
        rec['find'], s, l2 = ex.call('OrderQueue::find', [qref, idv], s, is_[2])
        results.append((is_[2], s))
        s = s0.copy()
        rec['remove'], s, l3 = ex.call('OrderQueue::remove', [qref, idv], s, is_[3])
        results.append((is_[3], s))
        s = s0.copy()
        rec['len'], s, l4 = ex.call('OrderQueue::len', [qref], s, is_[4])
        rec['is_empty'], s, l5 = ex.call('OrderQueue::is_empty', [qref], s, is_[4])
        rec['to_vec'], s, l6 = ex.call('OrderQueue::to_vec', [qref], s, is_[4])
        results.append((is_[4], s))
        st = merge_states([(c, x) for c, x in results if x is not None])
        live_all = S.And(live_all, S.Or([S.And(c, l) for c, l in zip(is_, [l0, l1, l2, l3, S.And(l4, l5, l6)])]))
        rec['live'] = live_all
        # --- reference FIFO (written from the statement)
        first = []
        none_before = S.TRUE
        for lv, it, ov in spec:
            first.append(S.And(lv, none_before))
            none_before = S.And(none_before, S.Not(lv))
        exp_pop_some = S.Not(none_before)
        exp_pop = UNDEF
        for f, (lv, it, ov) in reversed(list(zip(first, spec))):
            exp_pop = merge(f, ov, exp_pop)
        hit = [S.And(lv, S.Eq(it, idt)) for lv, it, ov in spec]
        exp_find_some = S.Or(hit)
        exp_find = UNDEF
        for h_, (lv, it, ov) in reversed(list(zip(hit, spec))):
            exp_find = merge(h_, ov, exp_find)
        exp_len = S.Sum([S.B2BV(lv, 64) for lv, it, ov in spec], 64)
        rec.update({'exp_pop_some': exp_pop_some, 'exp_pop': exp_pop, 'exp_find_some': exp_find_some, 'exp_find': exp_find,
                    'exp_len': exp_len, 'spec_before': list(spec), 'repushed': repushed})
        # the reference state follows the order the implementation actually handed out (which one it should have been
        # is a separate obligation), so that a recorded deviation of pop does not cascade into later calls
        pp = rec['pop'].payloads.get(1, UNDEF)
        popped_some = S.Eq(rec['pop'].tag, S.bv(1, 64))
        new = []
        for (lv, it, ov), f, h_ in zip(spec, first, hit):
            if pp is not UNDEF:
                took = S.And(is_[1], popped_some, veq(OrderView(L, pp[0]).id, OrderView(L, ov).id))
            else:
                took = S.FALSE
            new.append((S.And(lv, S.Not(took), S.Not(S.And(is_[3], h_))), it, ov))
        new.append((is_[0], idt, order))
        spec = new
        steps.append(rec)
    return ex, L, models, inp, steps, dom


def opt_eq(opt, some, val):
    """Option value equals `Some(val) if some else None`"""
    tag_ok = S.Eq(opt.tag, S.Ite(some, S.bv(1, 64), S.bv(0, 64)))
    p = opt.payloads.get(1, UNDEF)
    if p is UNDEF or val is UNDEF:
        return S.And(tag_ok, S.Not(some)) if p is UNDEF else tag_ok
    return S.And(tag_ok, S.Implies(some, veq(p[0], val)))


def solve(depth):
    smt.STATS.__init__()
    ex, L, models, inp, steps, dom = history(depth)
    assumptions = dom + models.assumptions
    if ex.unwinds:
        assumptions.append(S.Not(S.Or([u[0] for u in ex.unwinds])))
    obls = []
    for r in steps:
        k = r['k']
        live = r['live']
        strict_pop = opt_eq(r['pop'], r['exp_pop_some'], r['exp_pop'])
        obls.append({'name': 'call %d: pop hands out the oldest queued order' % k, 'goal': S.And(live, r['is'][1], S.Not(strict_pop)),
                     'known': 'C19/repush-inherits-stale-ticket'})
        obls.append({'name': 'call %d: tolerant: pop hands out the oldest queued order unless an id was pushed again earlier' % k,
                     'goal': S.And(live, r['is'][1], S.Not(r['repushed']), S.Not(strict_pop))})
        # also under re-pushes: pop returns a queued order iff something is queued
        anyq = [S.And(lv, veq(r['pop'].payloads.get(1, (UNDEF,))[0], ov)) for lv, it, ov in r['spec_before']] \
            if r['pop'].payloads.get(1, UNDEF) is not UNDEF else []
        obls.append({'name': 'call %d: pop returns some queued order exactly when the queue is not empty' % k,
                     'goal': S.And(live, r['is'][1], S.Not(S.And(S.Eq(r['pop'].tag, S.Ite(r['exp_pop_some'], S.bv(1, 64), S.bv(0, 64))),
                                                                  S.Implies(r['exp_pop_some'], S.Or(anyq)))))})
        obls.append({'name': 'call %d: find succeeds exactly on queued ids and returns the queued order' % k,
                     'goal': S.And(live, r['is'][2], S.Not(opt_eq(r['find'], r['exp_find_some'], r['exp_find'])))})
        obls.append({'name': 'call %d: remove succeeds exactly on queued ids and returns the queued order' % k,
                     'goal': S.And(live, r['is'][3], S.Not(opt_eq(r['remove'], r['exp_find_some'], r['exp_find'])))})
        tv = r['to_vec']
        each_once = []
        for lv, it, ov in r['spec_before']:
            cnt = S.Sum([S.B2BV(S.And(S.Ult(S.bv(i, 64), tv.length), veq(c_, ov)), 64) for i, c_ in enumerate(tv.cells) if c_ is not UNDEF], 64)
            each_once.append(S.Implies(lv, S.Eq(cnt, S.bv(1, 64))))
        sorted_ok = []
        for i in range(len(tv.cells) - 1):
            if tv.cells[i] is UNDEF or tv.cells[i + 1] is UNDEF:
                continue
            sorted_ok.append(S.Implies(S.Ult(S.bv(i + 1, 64), tv.length),
                                       S.Ule(OrderView(L, tv.cells[i]).timestamp, OrderView(L, tv.cells[i + 1]).timestamp)))
        obls.append({'name': 'call %d: len / is_empty count the queued orders; to_vec lists each once (timestamp order)' % k,
                     'goal': S.And(live, r['is'][4], S.Not(S.And(S.Eq(r['len'], r['exp_len']), S.Eq(r['is_empty'], S.Eq(r['exp_len'], S.bv(0, 64))),
                                                                  S.Eq(tv.length, r['exp_len']), S.And(each_once), S.And(sorted_ok))))})
    obls.append({'name': 'no panic in queue operations', 'goal': S.Or([p[0] for p in ex.panics])})
    final = steps[-1]
    obls.append({'name': 'reach: a history that pushes, removes, pushes the id again and pops', 'kind': 'witness',
                 'goal': S.And(final['live'], final['repushed'], S.Or([r['is'][1] for r in steps[2:]]))})
    obls.append({'name': 'reach: history executes', 'kind': 'witness', 'goal': final['live']})
    res = smt.run_batch(assumptions, [o['goal'] for o in obls], timeout=300, label='C19/D%d' % depth, model_vars=inp.vars, par=8)
    out = []
    for o, (verdict, model) in zip(obls, res):
        r = {'name': o['name'], 'kind': o.get('kind', 'obligation'), 'verdict': verdict, 'known': o.get('known')}
        if verdict == 'unknown':
            r['why'] = model
        if verdict == 'sat':
            if not all(S.evaluate([o['goal']] + assumptions, model, _uf_eval)):
                r['verdict'], r['why'] = 'unknown', 'model rejected by own evaluator'
            else:
                r['script'], r['pred'], r['desc'] = script_of(L, steps, model)
        out.append(r)
    return {'results': out, 'stats': cube_stats(ex, models)}


def script_of(L, steps, model):
    ops, pred, desc = [], [], []

    def oj(v):
        return order_json(L, v)
    for r in steps:
        k = conc(r['kind'], model)
        name = OPS[k]
        ids = order_id_str(conc(r['id'], model))
        if name == 'push':
            ops.append({'op': 'push', 'order': oj(conc(r['order'], model))})
            pred.append({})
            desc.append('push #%s(ts=%d)' % (ids[-2:], conc(OrderView(L, r['order']).timestamp, model)))
        elif name == 'pop':
            v = conc(r['pop'], model)
            ops.append({'op': 'pop'})
            pred.append({'some': oj(v[2][0])} if v[1] == 1 else {'none': True})
            desc.append('pop')
        elif name in ('find', 'remove'):
            v = conc(r[name], model)
            ops.append({'op': name, 'id': ids})
            pred.append({'some': oj(v[2][0])} if v[1] == 1 else {'none': True})
            desc.append('%s #%s' % (name, ids[-2:]))
        else:
            ops.append({'op': 'len'})
            pred.append({'len': conc(r['len'], model), 'is_empty': bool(conc(r['is_empty'], model))})
            ops.append({'op': 'to_vec'})
            pred.append({'list': [oj(x) for x in conc(r['to_vec'], model)]})
            desc.append('len/is_empty/to_vec')
    return {'kind': 'queue', 'ops': ops}, pred, '; '.join(desc)


def constructors(n):
    """from_vec / From<Vec>: the queue contains exactly the listed orders and pops them in list order"""
    smt.STATS.__init__()
    ex, L, models = make_engine()
    ex.default_loop_bound = n + 3
    ex.loop_bounds = {'::pop': n + 2}
    inp = Inputs(qty_mode='full')
    out = []
    for ctor in ('OrderQueue::from_vec', '<OrderQueue as From<Vec<Arc<OrderType<()>>>>>::from'):
        st = State()
        orders = [sym_order(L, inp, 'c%d%s' % (i, ctor[-3:]), oid=const_order_id(i + 1), variants=[0, 1, 6]) for i in range(n)]
        m = inp.var('n%s' % ctor[-3:], 8)
        vec = VecV(orders, S.ZExt(m, 64))
        q, st, l = ex.call(ctor, [vec], st)
        root = ex.alloc(st, q, 'q')
        goals = []
        live = l
        ln, st, _ = ex.call('OrderQueue::len', [RefV(root, ())], st)
        good = [S.Eq(ln, S.ZExt(m, 64))]
        for i in range(n):
            r, st, l2 = ex.call('OrderQueue::pop', [RefV(root, ())], st)
            live = S.And(live, l2)
            good.append(opt_eq(r, S.Ult(S.bv(i, 8), m), orders[i]))
        assume = [S.Ule(m, S.bv(n, 8))] + ([S.Not(S.Or([u[0] for u in ex.unwinds]))] if ex.unwinds else [])
        res = smt.run_batch(assume, [S.And(live, S.Not(S.And(good)))], timeout=120, label='C19/' + ctor[-8:], model_vars=inp.vars)
        out.append({'name': '%s: contains exactly the listed orders and pops them in list order (<= %d orders)' % (ctor.split('>::')[-1] if '>' in ctor else ctor, n),
                    'verdict': res[0][0], 'model': res[0][1]})
    return {'results': out, 'stats': cube_stats(ex, models)}


def run(tier, seed):
    run = Run('C19', tier, seed)
    depth = 6 if tier == 'quick' else 8
    known, fixed = load_known('C19')
    known_keys = [f['key'] for f in known]
    run.bounds = {'calls_per_history_D': depth, 'call_kinds': 'symbolic per step: ' + ', '.join(OPS), 'distinct_ids': NIDS,
                  'order_types': 'Standard, Iceberg, Reserve with free fields and timestamps', 'constructor_list_length': '<= 3'}
    run.assumptions = ['DashMap / SegQueue are a map and a FIFO (environment models)',
                       'ids are pushed only while not queued (quantifier: pushed once or re-pushed after removal)',
                       'text and JSON construction of a queue are outside this check (codec machinery, see C16/C17)',
                       'map iteration order = first-insertion order (the listing obligations only need each order once and sortedness)']
    (res, err), (res2, err2) = parallel_map([(solve, (depth,)), (constructors, (3,))])
    for rr, ee, what in ((res, err, 'histories'), (res2, err2, 'constructors')):
        if ee:
            run.inconclusive_('%s: %s' % (what, ee))
    if res:
        run.absorb_stats(res['stats'])
        for r in res['results']:
            if r['kind'] == 'witness':
                run.witnesses += 1
                if r['verdict'] != 'sat':
                    run.inconclusive_('vacuous witness %s: %s' % (r['name'], r['verdict']))
                    continue
                run.witness_sat += 1
            else:
                run.obligations += 1
                if r['verdict'] == 'unsat':
                    run.discharged += 1
                    continue
                if r['verdict'] != 'sat':
                    run.inconclusive_('%s: %s' % (r['name'], r.get('why')))
                    continue
            nat = run_native(r['script'])
            run.replayed += 1
            got = nat.get('results') or []

            def norm_(x):
                # the listing order among equal timestamps is the map's hash order, which the model leaves open:
                # compare listings as multisets (sortedness by timestamp is an obligation of its own)
                if isinstance(x, dict) and 'list' in x:
                    return {'list': sorted(canon(o) for o in x['list'])}
                return x
            same = len(got) == len(r['pred']) and all(canon(norm_(a)) == canon(norm_(b)) for a, b in zip(got, r['pred']))
            if not same:
                run.inconclusive_('%s: encoding and real crate disagree on [%s]: predicted %s native %s'
                                  % (r['name'], r['desc'], canon(r['pred'])[:300], canon(got)[:300]))
                continue
            run.replay_ok += 1
            if r['kind'] == 'witness':
                run.samples.append({'witness': r['name'], 'history': r['desc'], 'native_agrees': True})
            elif r.get('known') in known_keys:
                run.known(r['known'], r['desc'])
            else:
                run.violation(r['name'][:50], {'property': 'C19', 'obligation': r['name'], 'history': r['desc'], 'script': r['script'],
                                               'predicted': r['pred'], 'native': nat})
    if res2:
        run.absorb_stats(res2['stats'])
        for r in res2['results']:
            run.obligations += 1
            if r['verdict'] == 'unsat':
                run.discharged += 1
            elif r['verdict'] == 'sat':
                run.violation(r['name'][:40], {'property': 'C19', 'obligation': r['name'], 'model': {k: v for k, v in r['model'].items() if v not in (0, False)}})
            else:
                run.inconclusive_('%s: %s' % (r['name'], r['model']))
    return run.finish(explanation='one fully symbolic history of D calls (call kind, id and order symbolic at every step) on a fresh OrderQueue against a reference FIFO written from the statement; list constructors decided separately')
