"""C07 - cancel, move and amend do exactly what they report; read-only calls are pure."""
import os
from .. import sym as S
from ..values import UNDEF, EnumV, veq, merge
from ..scenario import OrderView
from ..histcheck import match_unwind_for, panic_obligations, reach_witness, busy_witness, sequences, run_hist
from ..framework import Run, load_known

QTY = ('quantity', 'visible_quantity', 'hidden_quantity')


def same_identity(L, a, b):
    """variant, id, price, side, timestamp, time-in-force and type parameters of two orders are equal"""
    conj = [S.Eq(a.tag, b.tag)]
    for i, (vn, fns, fts) in enumerate(L.enums['OrderType']):
        pa, pb = a.payloads.get(i, UNDEF), b.payloads.get(i, UNDEF)
        if pa is UNDEF or pb is UNDEF:
            continue
        same = [veq(x, y) for fn, x, y in zip(fns, pa, pb) if fn not in QTY]
        conj.append(S.Implies(S.Eq(a.tag, S.bv(i, 64)), S.And(same)))
    return S.And(conj)


def update_obligations(c, k, p):
    h, L = c.h, c.L
    rec = p['rec']
    live = p['live']
    tid = p['id']
    pre, post = rec['pre'], rec['post']
    ret = rec['ret']
    out = []

    def ob(name, cond, good):
        out.append({'name': 'step%d:%s %s' % (k, p['op'], name), 'kind': 'obligation',
                    'goal': S.And(live, cond, S.Not(good))})

    hits = [S.And(occ, veq(key, tid)) for occ, key, o in pre]
    anyhit = S.Or(hits)
    cur = UNDEF
    for hcond, (occ, key, o) in zip(hits, pre):
        if hcond is not S.FALSE:
            cur = merge(hcond, o, cur)
    is_ok = S.Eq(ret.tag, S.bv(0, 64))
    opt = ret.payloads[0][0]
    is_some = S.And(is_ok, S.Eq(opt.tag, S.bv(1, 64)))
    is_none = S.And(is_ok, S.Eq(opt.tag, S.bv(0, 64)))
    got = opt.payloads.get(1, UNDEF)
    got = got[0] if got is not UNDEF else UNDEF
    unchanged = veq(rec['before'], rec['after'])
    op = p['op']
    if op == 'C':
        removal, amend, reject = S.TRUE, S.FALSE, S.FALSE
    elif op == 'Q':
        removal, amend, reject = S.FALSE, S.TRUE, S.FALSE
    else:
        same_price = S.Eq(p['price'], h.P)
        removal = S.Not(same_price)
        if op == 'P':
            amend, reject = S.FALSE, same_price
        else:
            amend, reject = same_price, S.FALSE
    others_same = []
    for (occ, key, o) in pre:
        mine = veq(key, tid)
        inpost = [(o2c, o2) for o2c, key2, o2 in post if veq(key2, key) is not S.FALSE]
        still = S.Or([S.And(o2c, veq(o2, o)) for o2c, o2 in inpost])
        others_same.append(S.Implies(S.And(occ, S.Not(mine)), still))
    n_post = S.Sum([S.B2BV(o2c, 64) for o2c, _, _ in post], 64)
    n_pre = S.Sum([S.B2BV(occ, 64) for occ, _, _ in pre], 64)
    gone = S.Not(S.Or([S.And(o2c, veq(key2, tid)) for o2c, key2, o2 in post]))
    if cur is not UNDEF and got is not UNDEF:
        ob('removal of a resting order returns it with its current quantities, removes it and only it',
           S.And(removal, anyhit),
           S.And(is_some, veq(got, cur), gone, S.And(others_same), S.Eq(S.Add(n_post, S.bv(1, 64)), n_pre)))
        rests = S.Or([S.And(o2c, veq(key2, tid), veq(o2, got)) for o2c, key2, o2 in post])
        gv, cv = OrderView(L, got), OrderView(L, cur)
        sized = S.Or([cv.is_variant(v) for v in ('Standard', 'PostOnly', 'IcebergOrder')])
        ob('same-price amendment returns the order that now rests; new display for Standard/PostOnly/Iceberg; identity and other orders untouched',
           S.And(amend, anyhit),
           S.And(is_some, rests, same_identity(L, got, cur), S.Implies(sized, S.Eq(gv.displayed, p['qty'])) if p['qty'] is not None else S.TRUE,
                 S.Implies(cv.is_variant('IcebergOrder'), S.Eq(gv.hidden, cv.hidden)), S.And(others_same),
                 S.Eq(n_post, n_pre)))
    ob('unknown id reports not-found and changes nothing', S.And(S.Or(removal, amend), S.Not(anyhit)),
       S.And(is_none, unchanged))
    if reject is not S.FALSE:
        ob('price update to the level price is rejected without effect', reject, S.And(S.Not(is_ok), unchanged))
    return out


def obligations(c):
    h, L = c.h, c.L
    out = []
    removed = []  # (condition, id term, step)
    for k, p in enumerate(c.params):
        rec = p['rec']
        if p['op'] in 'CQPBX':
            out += update_obligations(c, k, p)
            ret = rec['ret']
            opt = ret.payloads[0][0]
            took = S.And(p['live'], S.Eq(ret.tag, S.bv(0, 64)), S.Eq(opt.tag, S.bv(1, 64)))
            if p['op'] == 'C':
                removed.append((took, p['id'], k))
            elif p['op'] in 'PBX':
                removed.append((S.And(took, S.Not(S.Eq(p['price'], h.P))), p['id'], k))
        elif p['op'] in 'AR':
            # an id that is added again may trade again
            oid = OrderView(L, p['order']).id
            removed = [(S.And(cnd, S.Not(veq(oid, tid))), tid, kk) for cnd, tid, kk in removed]
        elif p['op'] == 'M' and rec['ret'] is not None:
            mr = dict(zip(L.structs['MatchResult'], rec['ret']))
            txs = mr['transactions'][0]
            names = L.structs['Transaction']
            for cnd, tid, kk in removed:
                bad = []
                for i, t in enumerate(txs.cells):
                    tf = dict(zip(names, t))
                    bad.append(S.And(S.Ult(S.bv(i, 64), txs.length), veq(tf['maker_order_id'], tid)))
                out.append({'name': 'step%d:M an order removed at step %d never trades afterwards' % (k, kk),
                            'kind': 'obligation', 'goal': S.And(p['live'], cnd, S.Or(bad))})
        elif p['op'] == 'S':
            out.append({'name': 'step%d:S read-only calls (%d entry points) leave the level unchanged' % (k, len(rec['called'])),
                        'kind': 'obligation', 'goal': S.And(p['live'], S.Not(veq(rec['before'], rec['after'])))})
    return out


def prop(c):
    return obligations(c) + [reach_witness(c), busy_witness(c)]


def cubes(tier):
    out = []
    if tier == 'quick':
        n, k, depth, nadds, price = 2, 3, 3, 2, 3
    else:
        n, k, depth, nadds, price = 3, 5, 4, 2, 3
    for op in 'CQPBXS':
        out.append({'seq': op, 'pre': {'N': n, 'K': k}, 'pop_unwind': k + 2, 'qty_mode': 'full', 'price': price,
                    'family': 'one-op-from-arbitrary-state', 'default_unwind': 8})
    for s in sequences(depth, nadds, alphabet='AMCQPBXS'):
        if not any(ch in s for ch in 'CQPBXS'):
            continue
        if s.count('S') > 1:
            continue
        mu = match_unwind_for(s, 4)
        out.append({'seq': s, 'match_unwind': mu, 'pop_unwind': depth + 3, 'qty_mode': 'full', 'price': price,
                    'family': 'history', 'default_unwind': 8})
    return out


def run(tier, seed):
    run = Run('C07', tier, seed)
    cs = cubes(tier)
    if os.environ.get('VERIF_CUBES'):
        cs = [c for c in cs if c['seq'] in os.environ['VERIF_CUBES'].split(',')]
    run.bounds = {'one_op_from_arbitrary_state': {'resting_orders_N': cs[0].get('pre', {}).get('N'), 'tickets_K': cs[0].get('pre', {}).get('K'),
                                                  'ops': 'C Q P B X (all five update kinds, equal and different prices, present and absent ids) and S (read-only bundle)'},
                  'histories': {'depth_D': len(cs[-1]['seq']), 'cubes': len([c for c in cs if not c.get('pre')])},
                  'quantities': 'free 64-bit', 'level_price': cs[0]['price']}
    from .c01 import STD_ASSUMPTIONS
    run.assumptions = STD_ASSUMPTIONS + [
        'read-only bundle S = price, visible_quantity, hidden_quantity, order_count, iter_orders, snapshot, stats + its five getters named by C15, PriceLevelData::from (what Serialize hands over), Display::fmt with the text formatting machinery opaque',
        '"changes nothing" is decided as structural equality of the complete level state (order map, ticket queue, counters, statistics) before and after the call',
        '"never trades afterwards" is decided on the histories; for unbounded futures it follows from C02 (a maker is always a resting order) and the removal obligations here']
    run_hist(run, prop, cs, timeout=300 if tier == 'quick' else 900)
    return run.finish(explanation='every update kind from an arbitrary level state and inside bounded histories is compared with the statement; '
                                  'read-only entry points are executed from their MIR and must leave the complete level state equal')
