"""C09 - tampered or wrong-version snapshot packages are rejected (validation logic and checksum coverage).

PARTIAL: the package is built and validated through the real code (PriceLevelSnapshotPackage::new, validate,
into_snapshot, compute_checksum, the hand-written Serialize for PriceLevelSnapshot) with serde_json::to_vec and
SHA-256 as injective abstract functions of what the Serialize impl hands over.  Byte-level faults on the JSON
text (substitutions, truncations) go through serde_json's parser and are outside this check.
"""
import os
from .. import sym as S
from .. import smt
from ..values import UNDEF, EnumV, RefV, VecV, veq
from ..scenario import make_engine, Inputs, sym_order, const_order_id, OrderView
from ..exec import State
from ..history import order_json, uuid_str, canon
from ..histcheck import conc, _uf_eval
from ..framework import Run, parallel_map, cube_stats, run_native


def sym_snapshot(L, inp, name, n, free_aggregates, free_ids=False):
    P = inp.var(name + '.price', 64)
    dom0 = []
    if free_ids:
        # ids are chosen per position (so the replacement may reorder, duplicate-free, the original orders)
        idts = []
        oids = []
        for i in range(n):
            t = S.bv(n, 128)
            for j in range(n - 1, 0, -1):
                t = S.Ite(inp.var('%s.o%d.id_is%d' % (name, i, j), S.B), S.bv(j, 128), t)
            idts.append(t)
            oids.append(EnumV(S.bv(0, 64), {0: (t,)}))
        for i in range(n):
            for j in range(i):
                dom0.append(S.Not(S.Eq(idts[i], idts[j])))
    else:
        oids = [const_order_id(i + 1) for i in range(n)]
    orders = [sym_order(L, inp, '%s.o%d' % (name, i), oid=oids[i], variants=[0, 1, 6]) for i in range(n)]
    m = S.ZExt(inp.var(name + '.len', 2), 64)
    dom = dom0 + [S.Ule(m, S.bv(n, 64))]
    tot = S.bv(0, 70)
    for o in orders:
        v = OrderView(L, o)
        dom.append(S.Not(S.AddOvf(v.displayed, v.hidden)))
        tot = S.Add(tot, S.Add(S.ZExt(v.displayed, 70), S.ZExt(v.hidden, 70)))
    dom.append(S.Ult(tot, S.bv(1 << 64, 70)))
    if free_aggregates:
        agg = (inp.var(name + '.visible', 64), inp.var(name + '.hidden', 64), inp.var(name + '.count', 64))
    else:
        agg = (S.bv(0, 64), S.bv(0, 64), S.bv(0, 64))
    return (P,) + agg + (VecV(orders, m),), dom, orders, m


def snap_json(L, snap, m, orders, model):
    k = conc(m, model)
    return {'price': conc(snap[0], model), 'visible_quantity': conc(snap[1], model), 'hidden_quantity': conc(snap[2], model),
            'order_count': conc(snap[3], model), 'orders': [order_json(L, conc(o, model)) for o in orders[:k]]}


def tamper(tier):
    smt.STATS.__init__()
    ex, L, models = make_engine()
    n = 2
    ex.default_loop_bound = n + 4
    models.vec_cap = n + 2
    inp = Inputs(qty_mode='full')
    st = State()
    assert L.structs['PriceLevelSnapshotPackage'] == ['version', 'snapshot', 'checksum']
    s1, d1, o1, m1 = sym_snapshot(L, inp, 's1', n, False)
    s2, d2, o2, m2 = sym_snapshot(L, inp, 's2', n, True, free_ids=True)
    r1, st, l1 = ex.call('PriceLevelSnapshotPackage::new', [s1], st)
    pkg = r1.payloads[0][0]
    ok1 = S.And(l1, S.Eq(r1.tag, S.bv(0, 64)))
    # (O4) an untouched package is accepted
    ra, sta, la = ex.call('PriceLevel::from_snapshot_package', [pkg], st.copy())
    untouched_ok = S.And(la, S.Eq(ra.tag, S.bv(0, 64)))
    # tampered: any version, any content, original checksum
    ver = inp.var('version', 32)
    bad = (ver, s2, pkg[2])
    rb, stb, lb = ex.call('PriceLevel::from_snapshot_package', [bad], st.copy())
    accepted = S.And(lb, S.Eq(rb.tag, S.bv(0, 64)))
    refreshed = pkg[1]  # snapshot as stored in the package (aggregates refreshed by new())
    same = S.And(veq(refreshed[0], s2[0]), veq(refreshed[1], s2[1]), veq(refreshed[2], s2[2]), veq(refreshed[3], s2[3]),
                 veq(refreshed[4], s2[4]))
    lv = rb.payloads.get(0, UNDEF)
    a = d1 + d2 + models.assumptions + ([S.Not(S.Or([u[0] for u in ex.unwinds]))] if ex.unwinds else [])
    goals = [S.And(ok1, S.Not(untouched_ok)),
             S.And(ok1, accepted, S.Not(S.And(S.Eq(ver, S.bv(1, 32)), same))),
             S.And(ok1, accepted), S.And(ok1, S.Not(accepted), S.Eq(ver, S.bv(1, 32)))]
    names = ['a package built by the library is accepted by the restore path',
             'restore succeeds only if the version is supported and price, aggregates, number / sequence of orders and every order field are the checksummed ones',
             'reach: a (re)placed content that is accepted', 'reach: version 1 and changed content rejected']
    kinds = ['obligation', 'obligation', 'witness', 'witness']
    res = smt.run_batch(a, goals, timeout=300, label='C09/tamper', model_vars=None, par=4)
    out = []
    for nme, kind, g, (verdict, model) in zip(names, kinds, goals, res):
        r = {'name': nme, 'kind': kind, 'verdict': verdict}
        if verdict == 'unknown':
            r['why'] = model
        if verdict == 'sat':
            if not all(S.evaluate([g] + a, model, _uf_eval)):
                r['verdict'], r['why'] = 'unknown', 'model rejected by own evaluator'
            else:
                j1 = snap_json(L, s1, m1, o1, model)
                j2 = snap_json(L, s2, m2, o2, model)
                r['script'] = {'kind': 'level', 'price': j1['price'], 'ops': [
                    {'op': 'from_snapshot_with', 'price': j1['price'], 'visible': 0, 'hidden': 0, 'count': 0, 'orders': j1['orders']},
                    {'op': 'tamper_restore', 'version': conc(ver, model), 'snapshot': j2}]}
                r['pred'] = 'ok' if conc(accepted, model) else 'err'
                r['desc'] = 'package of %s with version=%d and content replaced by %s -> %s' % (canon(j1)[:160], conc(ver, model), canon(j2)[:160], r['pred'])
                if nme == names[0]:
                    # the statement is about the UNTOUCHED package: replay exactly that (no replacement of version or content)
                    r['script']['ops'][1] = {'op': 'tamper_restore'}
                    r['pred'] = 'ok' if conc(untouched_ok, model) else 'err'
                    r['desc'] = 'untouched package of %s (carried aggregates visible=%d hidden=%d count=%d) -> %s' % (
                        canon(j1)[:160], j1['visible_quantity'], j1['hidden_quantity'], j1['order_count'], r['pred'])
        out.append(r)
    return {'results': out, 'stats': cube_stats(ex, models)}


def run(tier, seed):
    run = Run('C09', tier, seed)
    run.bounds = {'orders_per_snapshot': '<= 2 (Standard / Iceberg / Reserve, all fields free)', 'tampering': 'ANY replacement of version and snapshot content under the original checksum',
                  'byte_level_faults': 'outside (serde_json parser)'}
    run.assumptions = ['serde_json::to_vec is an injective function of the sequence of (field, value) pairs the real Serialize impl for PriceLevelSnapshot hands to the serializer; serde_derive records every field of OrderType',
                       'SHA-256 and the hex formatting are injective on the inputs considered (abstract digest)',
                       'the JSON parser (from_json) is outside the check: the restore path is entered at from_snapshot_package with an arbitrary parsed package',
                       'truncation / single-byte faults on the serialized text are NOT covered']
    (res, err), = parallel_map([(tamper, (tier,))], jobs=1)
    if err:
        run.inconclusive_(err)
    else:
        run.absorb_stats(res['stats'])
        for r in res['results']:
            if r['kind'] == 'witness':
                run.witnesses += 1
            else:
                run.obligations += 1
            if r['kind'] == 'obligation' and r['verdict'] == 'unsat':
                run.discharged += 1
                continue
            if r['verdict'] != 'sat':
                run.inconclusive_('%s: %s %s' % (r['name'], r['verdict'], r.get('why') or ''))
                continue
            if r['kind'] == 'witness':
                run.witness_sat += 1
            nat = run_native(r['script'])
            run.replayed += 1
            got = ((nat.get('results') or [{}])[-1]).get('restore')
            if got != r['pred'] and r['name'].startswith('a package built by the library') and r['script']['ops'][0].get('orders'):
                # the public API hands PriceLevelSnapshotPackage::new a snapshot whose carried aggregates disagree with its
                # orders only when an add races snapshot() or one id is added twice; try the second, sequential, way
                o = r['script']['ops'][0]['orders'][0]
                probe = {'kind': 'level', 'price': r['script']['price'], 'ops': [{'op': 'add', 'order': o}, {'op': 'add', 'order': o}, {'op': 'tamper_restore'}]}
                nat2 = run_native(probe)
                got2 = ((nat2.get('results') or [{}])[-1]).get('restore')
                if got2 == r['pred']:
                    r['script'], nat, got = probe, nat2, got2
                    r['desc'] = 'untouched package of a level to which one id was added twice (counters 2 orders, listing 1) -> %s' % got2
            if got != r['pred']:
                run.inconclusive_('%s: encoding predicts %s, the real crate (through serde_json and SHA-256) says %s | %s%s' % (
                    r['name'], r['pred'], got, r['desc'],
                    ' | the encoding runs PriceLevelSnapshotPackage::new on a snapshot with ARBITRARY carried aggregates; the native script can only '
                    'package a level, whose snapshot carries consistent aggregates unless an add races snapshot() or an id is added twice'
                    if r['name'].startswith('a package built by the library') else ''))
                continue
            run.replay_ok += 1
            if r['kind'] == 'witness':
                run.samples.append({'witness': r['name'], 'case': r['desc'], 'native_agrees': True})
            else:
                run.violation(r['name'][:40], {'property': 'C09', 'obligation': r['name'], 'case': r['desc'], 'script': r['script'], 'native': nat})
    return run.finish(explanation='the real package construction and validation code with an abstract injective JSON/digest decides that no replacement of version or content passes under the original checksum')
