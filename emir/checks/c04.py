"""C04 - resting orders trade in arrival order (time priority).

Decided inductively with a ghost arrival rank per resting order.  The link invariant J says: for two
resting orders that both display quantity, the earlier-ranked one is reached first by the ticket queue.
Every operation from an ARBITRARY state satisfying J must (a) trade only against the earliest-ranked
displaying order and (b) re-establish J for the ranks the statement prescribes (kept on partial fill and
same-price amend, back of the queue on add / re-add / replenishment).
"""
import os
from .. import sym as S
from ..values import UNDEF, veq, VecV
from ..scenario import OrderView, const_order_id
from ..history import uuid_str
from ..histcheck import reach_witness, busy_witness, run_hist, conc, SET_ASIDE_ID
from ..framework import Run, load_known

RW = 16


def first_before(tickets, i_id, j_id):
    """the first available ticket of id i precedes the first available ticket of id j (i has one)"""
    alts = []
    none_j_before = S.TRUE
    for _, present, popped, idv in tickets:
        avail = S.And(present, S.Not(popped))
        alts.append(S.And(avail, veq(idv, i_id), none_j_before))
        none_j_before = S.And(none_j_before, S.Not(S.And(avail, veq(idv, j_id))))
    return S.Or(alts)


def link_invariant(h, parts, ranks, displaying_only=False):
    """J: earlier rank => reached first, over the resting orders (optionally only those that display quantity,
    which is the part a draining match can observe)"""
    L = h.L
    conj = []
    rest = parts['resting']
    for a, (occ_a, key_a, o_a) in enumerate(rest):
        for b, (occ_b, key_b, o_b) in enumerate(rest):
            if a == b:
                continue
            ra, rb = ranks.get(_k(key_a)), ranks.get(_k(key_b))
            if ra is None or rb is None:
                continue
            both = S.And(occ_a, occ_b)
            if displaying_only:
                both = S.And(both, S.Not(S.Eq(OrderView(L, o_a).displayed, S.bv(0, 64))),
                             S.Not(S.Eq(OrderView(L, o_b).displayed, S.bv(0, 64))))
            conj.append(S.Implies(S.And(both, S.Ult(ra, rb)), first_before(parts['tickets'], key_a, key_b)))
    return S.And(conj)


def all_display(h, parts):
    """preferred region for counterexamples: every resting order displays quantity (so a plain draining match observes
    every queue position)"""
    return S.And([S.Implies(occ, S.Not(S.Eq(OrderView(h.L, o).displayed, S.bv(0, 64)))) for occ, key, o in parts['resting']])


def _k(key):
    from ..values import key_repr
    return key_repr(key)


def ghost_ranks(c):
    """fresh ranks for the orders of the arbitrary pre-state, pairwise distinct"""
    ranks = {}
    for i, o in enumerate(c.pre['orders']):
        ranks[_k(const_order_id(i + 1))] = c.inp.var('rank%d' % i, RW)
    vals = list(ranks.values())
    for i in range(len(vals)):
        c.domain.append(S.Ult(vals[i], S.bv(1 << (RW - 1), RW)))
        for j in range(i):
            c.domain.append(S.Not(S.Eq(vals[i], vals[j])))
    return ranks


def back_rank(c, name):
    r = c.inp.var(name, RW)
    c.domain.append(S.Uge(r, S.bv(1 << (RW - 1), RW)))
    return r


def obligations(c):
    h, L = c.h, c.L
    out = []
    if not c.pre:
        return out
    ranks = ghost_ranks(c)
    p = c.params[0]
    rec = p['rec']
    op = p['op']
    pre_parts = h.level_parts(rec['before'] if rec.get('before') is not None else rec['pre_level'])
    J0 = link_invariant(h, pre_parts, ranks)
    c.domain.append(J0)

    def drain_info(expected_fn):
        def f(cc, model):
            return expected_fn(model)
        return f

    def expected_first_after(parts_after, ranks_after):
        """what the arrival-order model prescribes for the state: the full maker order of a draining match (after every
        resting order that displays nothing has been given a display of 1 by a same-price amendment, which keeps places)"""
        def g(model):
            rows = []
            for occ, key, o in parts_after['resting']:
                if not conc(occ, model):
                    continue
                r = ranks_after.get(_k(key))
                if r is None:
                    continue
                rows.append((conc(r, model), uuid_str(_k(key)[2][0]), conc(OrderView(L, o).displayed, model)))
            rows.sort()
            disp = [x for x in rows if x[2] != 0]
            return {'expected_first': disp[0][1] if disp else None,
                    'expected_order': [x[1] for x in rows],
                    'amend': [x[1] for x in rows if x[2] == 0]}
        return g

    if op in 'AR':
        oid = OrderView(L, p['order']).id
        r2 = dict(ranks)
        r2[_k(oid)] = back_rank(c, 'rank_new')
        parts = h.level_parts(rec['after'])
        J1 = link_invariant(h, parts, r2)
        J1o = link_invariant(h, parts, r2, True)
        stale = S.Or([S.And(pr, S.Not(pp), veq(idv, oid)) for _, pr, pp, idv in pre_parts['tickets']])
        if op == 'A':
            out.append({'name': 'A: added order joins at the back', 'kind': 'obligation', 'goal': S.And(p['live'], S.Not(J1)),
                        'drain': drain_info(expected_first_after(parts, r2)), 'prefer': all_display(h, parts)})
        else:
            out.append({'name': 'R: re-added id joins at the back', 'kind': 'obligation', 'goal': S.And(p['live'], S.Not(J1o)),
                        'known': 'C04/stale-ticket-keeps-old-position', 'drain': drain_info(expected_first_after(parts, r2)), 'prefer': all_display(h, parts)})
            out.append({'name': 'R: tolerant: re-add joins at the back unless a stale ticket of that id is still queued',
                        'kind': 'obligation', 'goal': S.And(p['live'], S.Not(stale), S.Not(J1)),
                        'drain': drain_info(expected_first_after(parts, r2)), 'prefer': all_display(h, parts)})
    elif op == 'Q':
        parts = h.level_parts(rec['after'])
        J1 = link_invariant(h, parts, ranks)
        out.append({'name': 'Q: same-price amendment keeps the place of every order', 'kind': 'obligation',
                    'goal': S.And(p['live'], S.Not(J1)), 'drain': drain_info(expected_first_after(parts, ranks)), 'prefer': all_display(h, parts)})
    elif op in 'CPBX':
        parts = h.level_parts(rec['after'])
        J1 = link_invariant(h, parts, ranks)
        out.append({'name': '%s: removal / amendment leaves the relative order of the others' % op, 'kind': 'obligation',
                    'goal': S.And(p['live'], S.Not(J1)), 'drain': drain_info(expected_first_after(parts, ranks)), 'prefer': all_display(h, parts)})
    elif op in 'MI':
        # (a) a transaction's maker is the earliest-ranked displaying order of the pre-state
        checks = []
        if rec['ret'] is not None:
            checks.append((p['live'], rec['ret'], 'return'))
        for cut in rec.get('cuts') or []:
            if cut.get('result') is not None:
                checks.append((cut['guard'], cut['result'], 'cut'))
        names = L.structs['Transaction']
        for guard, res, where in checks:
            mr = dict(zip(L.structs['MatchResult'], res))
            txs = mr['transactions'][0]
            start_n = rec['start']['result'][L.field_index('MatchResult', 'transactions')][0].length if op == 'I' else S.bv(0, 64)
            bad = []
            for i, t in enumerate(txs.cells):
                tf = dict(zip(names, t))
                new_tx = S.And(S.Ult(S.bv(i, 64), txs.length), S.Uge(S.bv(i, 64), start_n))
                m = tf['maker_order_id']
                for occ, key, o in pre_parts['resting']:
                    rm = None
                    for occ2, key2, o2 in pre_parts['resting']:
                        pass
                    earlier = []
                    for occ2, key2, o2 in pre_parts['resting']:
                        if _k(key2) == _k(key):
                            continue
                        earlier.append(S.And(occ2, S.Not(S.Eq(OrderView(L, o2).displayed, S.bv(0, 64))),
                                             S.Ult(ranks[_k(key2)], ranks[_k(key)])))
                    bad.append(S.And(new_tx, veq(m, key), occ, S.Or(earlier)))
            out.append({'name': '%s(%s): the first maker of the iteration is the earliest-arrived displaying order' % (op, where),
                        'kind': 'obligation', 'goal': S.And(guard, S.Or(bad))})
        # (b) J re-established at the next loop head for the prescribed ranks.  Everything is read off the level states
        #     before / after the iteration (not off local variables of match_order, whose names a refactoring may change)
        for j, cut in enumerate(rec.get('cuts') or []):
            parts = h.level_parts(cut['level'])
            q0 = p['q'] if op == 'M' else rec['start']['remaining']
            traded = S.Ult(cut['remaining'], q0)
            newr = back_rank(c, 'rank_cut%d' % j)
            strict, tolerant = {}, {}
            dup = S.FALSE
            replen = S.FALSE
            for occ, key, o in pre_parts['resting']:
                kk = _k(key)
                # the maker this iteration visited: owner of the first available ticket whose id is resting
                alts = []
                none_live_before = S.TRUE
                for _, pr, pp, idv in pre_parts['tickets']:
                    avail = S.And(pr, S.Not(pp))
                    is_live = S.Or([S.And(oc2, veq(idv, k2)) for oc2, k2, _ in pre_parts['resting']])
                    alts.append(S.And(avail, veq(idv, key), occ, none_live_before))
                    none_live_before = S.And(none_live_before, S.Not(S.And(avail, is_live)))
                visited = S.Or(alts)
                hpre = OrderView(L, o).hidden
                hpost = hpre
                for oc2, k2, o2 in parts['resting']:
                    if _k(k2) == kk:
                        hpost = S.Ite(oc2, OrderView(L, o2).hidden, hpost)
                replen_k = S.And(visited, S.Ult(hpost, hpre))
                replen = S.Or(replen, replen_k)
                partial = S.And(visited, traded, S.Not(replen_k))
                r = ranks[kk]
                # statement: replenished -> back; partially filled -> keeps place; a maker that had nothing to
                # trade (statement silent) -> back
                strict[kk] = S.Ite(visited, S.Ite(partial, r, newr), r)
                # known deviation: a partially filled maker is re-queued at the back
                tolerant[kk] = S.Ite(visited, newr, r)
                # another available ticket of the visited id is still queued (left by an earlier amend / re-add)
                ntick = [S.And(pr, S.Not(pp), veq(idv, key)) for _, pr, pp, idv in pre_parts['tickets']]
                two = S.Or([S.And(ntick[a_], ntick[b_]) for a_ in range(len(ntick)) for b_ in range(a_)])
                dup = S.Or(dup, S.And(visited, two))
            Js_o = link_invariant(h, parts, strict, True)
            Jt = link_invariant(h, parts, tolerant)
            def dr(rk, parts=parts, cut=cut):
                if op != 'M':
                    return None
                g = expected_first_after(parts, rk)
                ntx = dict(zip(L.structs['MatchResult'], cut['result']))['transactions'][0].length

                def f(cc, model):
                    return {'expected_first': g(model)['expected_first'], 'within_call': 0, 'skip': conc(ntx, model)}
                return f
            if op == 'M':
                out.append({'name': '%s: a replenished maker moves to the back' % op, 'kind': 'obligation',
                            'goal': S.And(cut['guard'], replen, S.Not(Js_o)),
                            'known': 'C04/stale-ticket-keeps-old-position', 'cut_step': 0, 'drain': dr(strict)})
            out.append({'name': '%s: tolerant: after an iteration the visited maker is at the back and nobody else moved '
                                '(unless an older ticket of its id is still queued)' % op,
                        'kind': 'obligation', 'goal': S.And(cut['guard'], S.Not(dup), S.Not(Jt)), 'cut_step': 0,
                        'drain': dr(tolerant)})
        # (c) the same at return (a partial fill ends the call, so it is only visible here)
        if rec['ret'] is not None and op == 'M':
            parts = h.level_parts(rec['after'])
            mr = dict(zip(L.structs['MatchResult'], rec['ret']))
            txs = mr['transactions'][0]
            newr = back_rank(c, 'rank_ret')
            strict, tolerant = {}, {}
            anyvis_dup = S.FALSE
            vis_partial = S.FALSE
            live_before = S.FALSE
            for occ, key, o in pre_parts['resting']:
                kk = _k(key)
                # the maker this call reaches first: first available ticket whose id is resting
                alts = []
                none_live_before = S.TRUE
                for _, pr, pp, idv in pre_parts['tickets']:
                    avail = S.And(pr, S.Not(pp))
                    is_live = S.Or([S.And(oc2, veq(idv, k2)) for oc2, k2, _ in pre_parts['resting']])
                    alts.append(S.And(avail, veq(idv, key), occ, none_live_before))
                    none_live_before = S.And(none_live_before, S.Not(S.And(avail, is_live)))
                visited = S.And(S.Or(alts), S.Not(S.Eq(p['q'], S.bv(0, 64))))
                traded = S.Or([S.And(S.Ult(S.bv(i, 64), txs.length), veq(dict(zip(names, t))['maker_order_id'], key))
                               for i, t in enumerate(txs.cells)])
                hpost = S.bv(0, 64)
                for oc2, k2, o2 in parts['resting']:
                    if _k(k2) == kk:
                        hpost = S.Ite(oc2, OrderView(L, o2).hidden, hpost)
                partial = S.And(traded, S.Eq(hpost, OrderView(L, o).hidden))
                strict[kk] = S.Ite(S.And(visited, S.Not(partial)), newr, ranks[kk])
                tolerant[kk] = S.Ite(visited, newr, ranks[kk])
                ntick = [S.And(pr, S.Not(pp), veq(idv, key)) for _, pr, pp, idv in pre_parts['tickets']]
                two = S.Or([S.And(ntick[a], ntick[b]) for a in range(len(ntick)) for b in range(a)])
                anyvis_dup = S.Or(anyvis_dup, S.And(visited, two))
                vis_partial = S.Or(vis_partial, S.And(visited, partial))
            Js_o = link_invariant(h, parts, strict, True)
            Jt = link_invariant(h, parts, tolerant)
            out.append({'name': 'M(return): a partially filled maker keeps its place', 'kind': 'obligation',
                        'goal': S.And(p['live'], vis_partial, S.Not(anyvis_dup), S.Not(Js_o)),
                        'known': 'C04/partial-fill-requeued-at-tail', 'drain': drain_info(expected_first_after(parts, strict)), 'prefer': all_display(h, parts)})
            out.append({'name': 'M(return): tolerant: the visited maker is at the back and nobody else moved (unless an older '
                                'ticket of its id is still queued)', 'kind': 'obligation',
                        'goal': S.And(p['live'], S.Not(anyvis_dup), S.Not(Jt)),
                        'drain': drain_info(expected_first_after(parts, tolerant)), 'prefer': all_display(h, parts)})
        # (d) cube I at return: the makers this call has set aside are re-queued behind everything that was re-queued
        #     during the sweep and IN THE ORDER in which they were set aside
        if rec['ret'] is not None and op == 'I':
            from .c01 import set_aside_entries
            parts = h.level_parts(h.level_value())
            start = rec['start']
            sa = set_aside_entries(start['locals'])
            mr = dict(zip(L.structs['MatchResult'], rec['ret']))
            txs = mr['transactions'][0]
            t0n = dict(zip(L.structs['MatchResult'], start['result']))['transactions'][0].length
            lo = c.inp.var('rank_requeued_in_loop', RW)
            hi = c.inp.var('rank_setaside_later', RW)
            half = S.bv(1 << (RW - 1), RW)
            rank_S = [c.inp.var('rank_setaside%d' % j, RW) for j in range(len(sa))]
            c.domain += [S.Uge(lo, half)]
            prev = lo
            for rs in rank_S:
                c.domain.append(S.Ugt(rs, prev))  # set aside in this order, all behind what was re-queued during the sweep
                prev = rs
            c.domain.append(S.Ugt(hi, prev))
            r2 = {}
            anyvis_dup = S.FALSE
            for occ, key, o in pre_parts['resting']:
                kk = _k(key)
                alts = []
                none_live_before = S.TRUE
                for _, pr, pp, idv in pre_parts['tickets']:
                    avail = S.And(pr, S.Not(pp))
                    is_live = S.Or([S.And(oc2, veq(idv, k2)) for oc2, k2, _ in pre_parts['resting']])
                    alts.append(S.And(avail, veq(idv, key), occ, none_live_before))
                    none_live_before = S.And(none_live_before, S.Not(S.And(avail, is_live)))
                visited = S.And(S.Or(alts), S.Not(S.Eq(start['remaining'], S.bv(0, 64))))
                traded = S.Or([S.And(S.Ult(S.bv(i, 64), txs.length), S.Uge(S.bv(i, 64), t0n),
                                     veq(dict(zip(names, t))['maker_order_id'], key)) for i, t in enumerate(txs.cells)])
                hpost = OrderView(L, o).hidden
                for oc2, k2, o2 in parts['resting']:
                    if _k(k2) == kk:
                        hpost = S.Ite(oc2, OrderView(L, o2).hidden, hpost)
                set_aside_now = S.And(S.Not(traded), S.Eq(hpost, OrderView(L, o).hidden))
                r2[kk] = S.Ite(visited, S.Ite(set_aside_now, hi, lo), ranks[kk])
                ntick = [S.And(pr, S.Not(pp), veq(idv, key)) for _, pr, pp, idv in pre_parts['tickets']]
                two = S.Or([S.And(ntick[a], ntick[b]) for a in range(len(ntick)) for b in range(a)])
                anyvis_dup = S.Or(anyvis_dup, S.And(visited, two))
            for (v, _, so), rs in zip(sa, rank_S):
                r2[_k(OrderView(L, so).id)] = rs
            Jr = link_invariant(h, parts, r2)
            out.append({'name': 'I(return): makers set aside by the call are re-queued at the back in the order in which they were set '
                                'aside (unless an older ticket of the visited id is still queued)', 'kind': 'obligation',
                        'goal': S.And(p['live'], S.Not(anyvis_dup), S.Not(Jr))})
    for o in out:
        if o.get('drain') is None:
            o.pop('drain', None)
        if o.get('known') is None:
            o.pop('known', None)
    return out


def sweep_obligations(c):
    """black-box companion for sweeps of several makers inside ONE call (bounded unrolling, no cut): a maker must not trade
    twice in a row while another displaying resting order has not traded yet in this call (it has to go to the back when
    it is replenished) - unless an older ticket of its id was already queued (recorded deviation)"""
    h, L = c.h, c.L
    p = c.params[0]
    rec = p['rec']
    if rec['ret'] is None:
        return []
    pre = h.level_parts(rec['before'])
    mr = dict(zip(L.structs['MatchResult'], rec['ret']))
    txs = mr['transactions'][0]
    names = L.structs['Transaction']
    T = [(S.Ult(S.bv(i, 64), txs.length), dict(zip(names, t))) for i, t in enumerate(txs.cells)]
    bad = []
    for i in range(len(T) - 1):
        (v1, t1), (v2, t2) = T[i], T[i + 1]
        x = t1['maker_order_id']
        again = S.And(v1, v2, veq(x, t2['maker_order_id']))
        ntick = [S.And(pr, S.Not(pp), veq(idv, x)) for _, pr, pp, idv in pre['tickets']]
        dup = S.Or([S.And(ntick[a], ntick[b]) for a in range(len(ntick)) for b in range(a)])
        waiting = []
        for occ, key, o in pre['resting']:
            traded = S.Or([S.And(v, veq(t['maker_order_id'], key)) for v, t in T[:i + 1]])
            waiting.append(S.And(occ, S.Not(veq(key, x)), S.Not(S.Eq(OrderView(L, o).displayed, S.bv(0, 64))), S.Not(traded)))
        bad.append(S.And(again, S.Not(dup), S.Or(waiting)))
    # makers that the call visited without trading (set aside) keep their relative order
    post = h.level_parts(rec['after'])
    ranks = ghost_ranks(c)
    c.domain.append(link_invariant(h, pre, ranks))
    popped_after = {eid: pp for eid, _, pp, _ in post['tickets']}

    def info(key, o):
        ntick = [S.And(pr, S.Not(pp), veq(idv, key)) for _, pr, pp, idv in pre['tickets']]
        two = S.Or([S.And(ntick[a], ntick[b]) for a in range(len(ntick)) for b in range(a)])
        visited = S.Or([S.And(pr, S.Not(pp), veq(idv, key), popped_after.get(eid, S.FALSE)) for eid, pr, pp, idv in pre['tickets']])
        traded = S.Or([S.And(v, veq(t['maker_order_id'], key)) for v, t in T])
        still = S.FALSE
        for oc2, k2, o2 in post['resting']:
            if _k(k2) == _k(key):
                still = S.And(oc2, veq(o2, o))
        return S.And(visited, S.Not(traded), still, S.Not(two))
    sa_bad = []
    sa_rows = []
    for occ_a, key_a, o_a in pre['resting']:
        ia = S.And(occ_a, info(key_a, o_a))
        sa_rows.append((ia, key_a, ranks[_k(key_a)]))
        for occ_b, key_b, o_b in pre['resting']:
            if _k(key_a) == _k(key_b):
                continue
            ib = S.And(occ_b, info(key_b, o_b))
            sa_bad.append(S.And(ia, ib, S.Ult(ranks[_k(key_a)], ranks[_k(key_b)]), S.Not(first_before(post['tickets'], key_a, key_b))))

    def sa_drain(cc, model):
        rows = sorted((conc(r, model), uuid_str(_k(k)[2][0])) for i, k, r in sa_rows if conc(i, model))
        amend = [uuid_str(_k(k)[2][0]) for oc, k, o in post['resting'] if conc(oc, model) and conc(OrderView(L, o).displayed, model) == 0]
        return {'expected_first': None, 'expected_order': [x[1] for x in rows], 'subset': True, 'amend': amend}
    # a maker must not trade twice in a call while an EARLIER-arrived order that shows quantity when the call returns has not
    # traded at all in it (an order replenished on its first visit joins the back then, not when the call ends)
    twice_bad = []
    for occ_y, key_y, o_y in pre['resting']:
        ny = [S.And(v, veq(t['maker_order_id'], key_y)) for v, t in T]
        twice = S.Or([S.And(ny[a], ny[b]) for a in range(len(ny)) for b in range(a)])
        if twice is S.FALSE:
            continue
        nty = [S.And(pr, S.Not(pp), veq(idv, key_y)) for _, pr, pp, idv in pre['tickets']]
        dup_y = S.Or([S.And(nty[a], nty[b]) for a in range(len(nty)) for b in range(a)])
        for occ_x, key_x, o_x in pre['resting']:
            if _k(key_x) == _k(key_y):
                continue
            traded_x = S.Or([S.And(v, veq(t['maker_order_id'], key_x)) for v, t in T])
            shows = S.FALSE
            for oc2, k2, o2 in post['resting']:
                if _k(k2) == _k(key_x):
                    shows = S.And(oc2, S.Not(S.Eq(OrderView(L, o2).displayed, S.bv(0, 64))))
            ntx = [S.And(pr, S.Not(pp), veq(idv, key_x)) for _, pr, pp, idv in pre['tickets']]
            dup_x = S.Or([S.And(ntx[a], ntx[b]) for a in range(len(ntx)) for b in range(a)])
            twice_bad.append(S.And(occ_y, occ_x, twice, S.Not(traded_x), shows, S.Ult(ranks[_k(key_x)], ranks[_k(key_y)]),
                                   S.Not(dup_x), S.Not(dup_y)))
    extra0 = [{'name': 'M(sweep): no maker trades twice while an earlier-arrived order that shows quantity at return has not traded in '
                       'the call', 'kind': 'obligation', 'goal': S.And(p['live'], S.Or(twice_bad))}]
    extra = extra0 + [{'name': 'M(sweep): makers passed over without a trade keep their relative order when the call re-queues them',
              'kind': 'obligation', 'goal': S.And(p['live'], S.Or(sa_bad)), 'drain': sa_drain,
              # a same-price amendment gives an iceberg its display back (not a reserve order): prefer observable makers
              'prefer': S.And([S.Implies(occ, S.Eq(o.tag, S.bv(L.variant_index('OrderType', 'IcebergOrder'), 64)))
                               for occ, key, o in pre['resting']])},
             {'name': 'reach: a sweep passes over two makers without trading', 'kind': 'witness', 'required': True,
              'goal': S.And(p['live'], S.Or([S.And(sa_rows[i][0], sa_rows[j][0]) for i in range(len(sa_rows)) for j in range(i)]))}]
    return extra + [{'name': 'M(sweep): no maker trades twice in a row while another displaying order has not traded yet in this call',
             'kind': 'obligation', 'goal': S.And(p['live'], S.Or(bad))},
            {'name': 'reach: a sweep in which a replenished maker trades twice', 'kind': 'witness', 'required': True,
             'goal': S.And(p['live'], S.Or([S.And(T[i][0], veq(T[i][1]['maker_order_id'], T[j][1]['maker_order_id']))
                                            for i in range(len(T)) for j in range(i)]))}]


def prop(c):
    if c.cube.get('family') == 'sweep':
        return sweep_obligations(c) + [reach_witness(c)]
    return obligations(c) + [reach_witness(c)]


def cubes(tier):
    out = []
    n, k = (2, 3) if tier == 'quick' else (3, 5)
    for op in 'ARQCPBXMI':
        out.append({'seq': op, 'pre': {'N': n, 'K': k}, 'cut_after': 1, 'pop_unwind': k + 2, 'qty_mode': 'full', 'price': 1,
                    'positive_quantities': False, 'match_from_one': False, 'set_aside_max': 2, 'taker_may_rest': True, 'native': op != 'I', 'family': 'inductive', 'default_unwind': 8})
    L_ = 3 if tier == 'quick' else 4
    out.append({'seq': 'M', 'pre': {'N': n, 'K': k}, 'match_unwind': L_, 'pop_unwind': k + L_ + 2, 'qty_mode': 'full', 'price': 1,
                'family': 'sweep', 'default_unwind': 8, 'taker_may_rest': True})
    return out


def run(tier, seed):
    run = Run('C04', tier, seed)
    cs = cubes(tier)
    if os.environ.get('VERIF_CUBES'):
        cs = [c for c in cs if c['seq'] in os.environ['VERIF_CUBES'].split(',')]
    known, fixed = load_known('C04')
    run.bounds = {'resting_orders_N': cs[0]['pre']['N'], 'tickets_K': cs[0]['pre']['K'],
                  'operations': [c['seq'] for c in cs], 'history_length': 'unbounded (inductive link invariant)',
                  'match': 'entry + first iteration (M) and an arbitrary later iteration (I), cut at the loop head',
                  'quantities': 'free 64-bit'}
    from .c01 import STD_ASSUMPTIONS
    run.assumptions = STD_ASSUMPTIONS + [
        'ghost arrival ranks; link invariant J (earlier rank => first available ticket earlier) assumed for the arbitrary pre-state and re-established after every operation',
        'a maker that is visited with nothing to trade and survives is expected at the back afterwards (the statement is silent; this is what re-queuing after the loop does)',
        'a queue-position violation is reported only after a draining match on the real crate shows the wrong maker first']
    run_hist(run, prop, cs, timeout=300, known_keys=[f['key'] for f in known])
    return run.finish(explanation='time priority as an inductive invariant linking ghost arrival ranks to the ticket queue; each operation of the real code is '
                                  'executed from an arbitrary state satisfying it')
