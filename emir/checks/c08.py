"""C08 - concurrent operations never strand or duplicate an order (level part)."""
import os
from .. import sym as S
from ..conccheck import run_conc, ob_reachable, ob_invariant, ob_conservation
from ..framework import Run, load_known
from .c03 import CONC_ASSUMPTIONS, base, PROGRAMS_QUICK, PROGRAMS_THOROUGH


def obls(P):
    o = [ob_reachable(P), ob_invariant(P), ob_conservation(P)[0]]
    o.append({'name': 'reach: both threads complete', 'kind': 'witness', 'goal': P.live})
    return o


QUEUE_PROGRAMS = ['uo', 'ou', 'ur', 'ru', 'oo', 'or', 'ro', 'rr', 'uf', 'fo', 'uu']


def queue_obls(P):
    from ..conccheck import ob_queue
    return ob_queue(P) + [{'name': 'reach: both threads complete', 'kind': 'witness', 'goal': P.live}]


def run(tier, seed):
    run = Run('C08', tier, seed)
    progs = PROGRAMS_QUICK if tier == 'quick' else PROGRAMS_THOROUGH
    if os.environ.get('VERIF_CUBES'):
        progs = os.environ['VERIF_CUBES'].split(',')
    b = base(tier)
    run.bounds = {'threads': 2, 'operations_per_thread': 1, 'programs': progs, 'resting_orders_N': b['pre']['N'],
                  'tickets_K': b['pre']['K'], 'match_loop_unwind': b['match_unwind']}
    run.assumptions = CONC_ASSUMPTIONS + [
        '"reachable by matching" is decided as the representation invariant: every resting order is covered by an available ticket; that a draining match then consumes it is C06 (termination, exhaustion) and C02 (maker = resting order)',
        'hand-out exactly once is decided through per-order conservation (executed + cancelled + resting <= supplied)',
        'bare OrderQueue programs: two threads x one call of push / pop / remove / find (u o r f) on an arbitrary queue state (<= N entries, <= K tickets incl. stale and duplicate ones); hand-out exactly once is counted over the results of both threads and the final map']
    known, fixed = load_known('C08')
    run_conc(run, progs, 'emir.checks.c08.obls', timeout=300, known_keys=[f['key'] for f in known], base=b)
    # the exported order queue on its own: concurrent push / pop / remove / find
    if not os.environ.get('VERIF_CUBES'):
        qb = dict(b, queue_only=True)
        run.bounds['queue_programs'] = QUEUE_PROGRAMS
        run_conc(run, QUEUE_PROGRAMS, 'emir.checks.c08.queue_obls', timeout=300, base=qb)
    return run.finish(explanation='at quiescence of every well-nested two-thread schedule every resting order must still be covered by a ticket and the aggregates must describe what rests')
