"""C11 - a restored level trades in the same order as the level it was taken from (two-run check)."""
import os
from .. import sym as S
from .. import smt
from ..values import UNDEF, EnumV, RefV, VecV, veq
from ..scenario import OrderView, const_order_id
from ..histcheck import build, base_assumptions, conc, _uf_eval, state_recipe
from ..history import order_json, order_id_str, uuid_str, canon, TAKER_ID
from ..framework import Run, load_known, parallel_map, cube_stats, run_native
from .c04 import first_before


def two_run(tier, cont):
    smt.STATS.__init__()
    n, k, L_ = (3, 3, 3) if tier == 'quick' else (3, 4, 4)
    c = build({'seq': '', 'pre': {'N': n, 'K': k}, 'qty_mode': 'full', 'price': 1, 'default_unwind': n + 4, 'vec_cap': n + 3,
               'match_unwind': L_, 'pop_unwind': k + L_ + 2, 'iter_symbolic': True, 'order_price_offsets': [1]})
    h, ex, L, inp = c.h, c.ex, c.L, c.inp
    pre_parts = h.level_parts(h.level_value())
    st = h.st
    snap, st, l0 = ex.call('PriceLevel::snapshot', [h.lref], st)
    r, st, l1 = ex.call('PriceLevel::from_snapshot', [snap], st)
    lv2 = r.payloads[0][0]
    root2 = ex.alloc(st, lv2, 'level2')
    gen2, st, _ = ex.call('UuidGenerator::new', [h.ns], st)
    groot2 = ex.alloc(st, gen2, 'gen2')
    live = S.And(l0, l1, S.Eq(r.tag, S.bv(0, 64)))
    q = inp.qty('q')
    taker = const_order_id(TAKER_ID)
    ops_desc = []
    if cont == 'cancel+match':
        from ..histcheck import target_id
        from ..values import enum_const
        from ..history import UPDATE_KINDS
        tid = target_id(inp, 'tgt', n, absent=False)
        upd = enum_const(UPDATE_KINDS.index('Cancel'), (tid,))
        _, st, la = ex.call('PriceLevel::update_order', [h.lref, upd], st, live)
        _, st, lb = ex.call('PriceLevel::update_order', [RefV(root2, ()), upd], st, live)
        live = S.And(live, la, lb)
    m1, st, la = ex.call('PriceLevel::match_order', [h.lref, q, taker, h.gref], st, live)
    m2, st, lb = ex.call('PriceLevel::match_order', [RefV(root2, ()), q, taker, RefV(groot2, ())], st, live)
    live = S.And(live, la, lb)
    names = L.structs['MatchResult']
    a1, a2 = dict(zip(names, m1)), dict(zip(names, m2))
    t1, t2 = a1['transactions'][0], a2['transactions'][0]
    tn = L.structs['Transaction']
    same = [S.Eq(t1.length, t2.length), S.Eq(a1['remaining_quantity'], a2['remaining_quantity'])]
    for i in range(max(len(t1.cells), len(t2.cells))):
        inl = S.Ult(S.bv(i, 64), t1.length)
        if i < len(t1.cells) and i < len(t2.cells):
            x, y = dict(zip(tn, t1.cells[i])), dict(zip(tn, t2.cells[i]))
            same.append(S.Implies(inl, S.And(veq(x['maker_order_id'], y['maker_order_id']), S.Eq(x['quantity'], y['quantity']))))
        else:
            same.append(S.Not(inl))
    same = S.And(same)
    # region in which timestamp order is the queue order: every resting order has exactly one available ticket and the
    # earlier ticket belongs to the strictly smaller timestamp
    tol = []
    for a, (occ_a, key_a, o_a) in enumerate(pre_parts['resting']):
        nt = [S.And(pr, S.Not(pp), veq(idv, key_a)) for _, pr, pp, idv in pre_parts['tickets']]
        two = S.Or([S.And(nt[i], nt[j]) for i in range(len(nt)) for j in range(i)])
        tol.append(S.Implies(occ_a, S.Not(two)))
        for b, (occ_b, key_b, o_b) in enumerate(pre_parts['resting']):
            if a == b:
                continue
            ta, tb = OrderView(L, o_a).timestamp, OrderView(L, o_b).timestamp
            tol.append(S.Implies(S.And(occ_a, occ_b), S.Not(S.Eq(ta, tb))))
            tol.append(S.Implies(S.And(occ_a, occ_b, S.Ult(ta, tb)), first_before(pre_parts['tickets'], key_a, key_b)))
    tol = S.And(tol)
    # counterexamples and witnesses that are replayed natively must not depend on the (unknown) real hash order:
    # they are searched among states without timestamp ties
    noties = []
    rs = pre_parts['resting']
    for a_ in range(len(rs)):
        for b_ in range(a_):
            noties.append(S.Implies(S.And(rs[a_][0], rs[b_][0]),
                                    S.Not(S.Eq(OrderView(L, rs[a_][2]).timestamp, OrderView(L, rs[b_][2]).timestamp))))
    noties = S.And(noties)
    a = base_assumptions(c)
    goals = [S.And(live, noties, S.Not(same)), S.And(live, tol, S.Not(same)), S.And(live, noties, S.Not(S.Eq(t1.length, S.bv(0, 64)))),
             S.And(live, tol, S.Ugt(t1.length, S.bv(1, 64)))]
    gn = ['%s: restored level produces the same makers in the same sequence with the same quantities' % cont,
          '%s: tolerant: the same, wherever timestamp order is the queue order (strictly increasing timestamps in arrival order, no re-queued order)' % cont,
          'reach: %s trades' % cont, 'reach: %s sweeps two makers inside the timestamp-ordered region' % cont]
    kinds = ['obligation', 'obligation', 'witness', 'witness']
    res = smt.run_batch(a, goals, timeout=600, label='C11/' + cont, model_vars=None, par=4)
    out = []
    for nme, kind, g, (verdict, model) in zip(gn, kinds, goals, res):
        r = {'name': nme, 'kind': kind, 'verdict': verdict, 'known': 'C11/snapshot-lists-by-timestamp' if nme is gn[0] else None}
        if verdict == 'unknown':
            r['why'] = model
        if verdict == 'sat':
            if not all(S.evaluate([g] + a, model, _uf_eval)):
                r['verdict'], r['why'] = 'unknown', 'model rejected by own evaluator'
            else:
                setup = state_recipe(c, model)
                cont_ops = []
                if cont == 'cancel+match':
                    cont_ops.append({'op': 'update', 'kind': 'Cancel', 'id': order_id_str(conc(tid, model))})
                cont_ops.append({'op': 'match', 'quantity': conc(q, model), 'taker': uuid_str(TAKER_ID)})
                base = {'kind': 'level', 'price': conc(h.P, model), 'namespace': uuid_str(conc(h.ns, model))}
                r['script_original'] = dict(base, ops=setup + cont_ops)
                r['script_restored'] = dict(base, ops=setup + [{'op': 'restore_snapshot'}] + cont_ops)

                def txl(t):
                    return [{'maker': order_id_str(conc(dict(zip(tn, x))['maker_order_id'], model)), 'quantity': conc(dict(zip(tn, x))['quantity'], model)}
                            for i, x in enumerate(t.cells) if i < conc(t.length, model)]
                r['pred_original'], r['pred_restored'] = txl(t1), txl(t2)
                r['desc'] = '%d setup ops; %s with quantity %d: original %s, restored %s' % (
                    len(setup), cont, conc(q, model), [x['maker'][-2:] + ':' + str(x['quantity']) for x in r['pred_original']],
                    [x['maker'][-2:] + ':' + str(x['quantity']) for x in r['pred_restored']])
        out.append(r)
    return {'results': out, 'stats': cube_stats(c.ex, c.models)}


def native_makers(script):
    nat = run_native(script)
    res = nat.get('results') or []
    last = res[-1] if res else {}
    return [{'maker': t['maker'], 'quantity': t['quantity']} for t in (last.get('match') or {}).get('transactions', [])]


def run(tier, seed):
    run = Run('C11', tier, seed)
    known, fixed = load_known('C11')
    known_keys = [f['key'] for f in known]
    conts = ['match'] if tier == 'quick' else ['match', 'cancel+match']
    run.bounds = {'original_level': 'ARBITRARY state with <= %d resting orders, <= %d tickets (ties and non-monotone timestamps, duplicate and stale tickets included)' % ((3, 3) if tier == 'quick' else (3, 4)),
                  'restore_path': 'from_snapshot(snapshot())', 'continuations': conts, 'match_loop_unwind': 3 if tier == 'quick' else 4,
                  'map_iteration_order': 'arbitrary (symbolic permutation) when the snapshot is taken'}
    run.assumptions = ['order prices range over {level price, level price + 1} (the level does not validate order prices)', 'both runs use generators with the same namespace', 'continuation bounded to the listed operations; match loop unrolled to the stated bound',
                       'std stable sort, Vec, iterators as specified (environment models)']
    for cont, (res, err) in zip(conts, parallel_map([(two_run, (tier, ct)) for ct in conts])):
        if err:
            run.inconclusive_('%s: %s' % (cont, err))
            continue
        run.absorb_stats(res['stats'])
        for r in res['results']:
            if r['kind'] == 'witness':
                run.witnesses += 1
            else:
                run.obligations += 1
            if r['verdict'] == 'unsat' and r['kind'] == 'obligation':
                run.discharged += 1
                continue
            if r['verdict'] != 'sat':
                run.inconclusive_('%s: %s %s' % (r['name'], r['verdict'], r.get('why') or ''))
                continue
            if r['kind'] == 'witness':
                run.witness_sat += 1
            # two native runs
            no, nr = native_makers(r['script_original']), native_makers(r['script_restored'])
            run.replayed += 2
            if no != r['pred_original'] or nr != r['pred_restored']:
                run.inconclusive_('%s: encoding and real crate disagree: predicted %s / %s, native %s / %s' % (r['name'], r['pred_original'], r['pred_restored'], no, nr))
                continue
            run.replay_ok += 2
            if r['kind'] == 'witness':
                run.samples.append({'witness': r['name'], 'case': r['desc'], 'native_agrees': True})
            elif no == nr:
                run.inconclusive_('%s: counterexample shows no difference natively' % r['name'])
            elif r.get('known') in known_keys:
                run.known(r['known'], r['desc'])
            else:
                run.violation(r['name'][:40], {'property': 'C11', 'obligation': r['name'], 'case': r['desc'], 'script_original': r['script_original'],
                                               'script_restored': r['script_restored'], 'native_original': no, 'native_restored': nr})
    return run.finish(explanation='two-run obligation: the same continuation executed on an arbitrary level and on its snapshot-restored copy must produce the same maker sequence')
