"""C10 - snapshot and serialization round-trips preserve content; aggregates are derived (structural part)."""
import os
from .. import sym as S
from .. import smt
from ..values import UNDEF, EnumV, RefV, VecV, MapV, veq, key_repr
from ..scenario import OrderView, sym_order, const_order_id, Inputs
from ..histcheck import build, base_assumptions, conc, _uf_eval, state_recipe
from ..history import order_json, uuid_str, canon
from ..framework import Run, parallel_map, cube_stats, run_native

PATHS = {
    'from_snapshot(snapshot())': 'restore_snapshot',
    'PriceLevel::from(&snapshot())': 'restore_from_ref',
    'try_from(PriceLevelData::from(&level))': 'restore_data',
}


def rebuild(c, path, st):
    """run one rebuild path on the level of c; returns (new level value, live)"""
    h, ex = c.h, c.ex
    if path == 'from_snapshot(snapshot())':
        snap, st, l1 = ex.call('PriceLevel::snapshot', [h.lref], st)
        r, st, l2 = ex.call('PriceLevel::from_snapshot', [snap], st)
        return r.payloads[0][0], S.And(l1, l2, S.Eq(r.tag, S.bv(0, 64))), S.Eq(r.tag, S.bv(0, 64))
    if path == 'PriceLevel::from(&snapshot())':
        snap, st, l1 = ex.call('PriceLevel::snapshot', [h.lref], st)
        root = ex.alloc(st, snap, 'snap')
        r, st, l2 = ex.call('<PriceLevel as From<&PriceLevelSnapshot>>::from', [RefV(root, ())], st)
        return r, S.And(l1, l2), S.TRUE
    d, st, l1 = ex.call('<PriceLevelData as From<&PriceLevel>>::from', [h.lref], st)
    r, st, l2 = ex.call('<PriceLevel as TryFrom<PriceLevelData>>::try_from', [d], st)
    return r.payloads[0][0], S.And(l1, l2, S.Eq(r.tag, S.bv(0, 64))), S.Eq(r.tag, S.bv(0, 64))


def same_content(h, lv1, lv2):
    """same price, same set of orders field for field, same aggregates, aggregates == sums"""
    L = h.L
    p1, p2 = h.level_parts(lv1), h.level_parts(lv2)
    conj = [S.Eq(lv1[L.field_index('PriceLevel', 'price')], lv2[L.field_index('PriceLevel', 'price')]),
            S.Eq(p1['visible'], p2['visible']), S.Eq(p1['hidden'], p2['hidden']), S.Eq(p1['count'], p2['count'])]
    m1 = {key_repr(k): (occ, o) for occ, k, o in p1['resting']}
    m2 = {key_repr(k): (occ, o) for occ, k, o in p2['resting']}
    for k in set(m1) | set(m2):
        a, b = m1.get(k), m2.get(k)
        if a is None or b is None:
            conj.append(S.Not((a or b)[0]))
        else:
            conj.append(S.Eq(a[0], b[0]))
            conj.append(S.Implies(a[0], veq(a[1], b[1])))
    d, hd, cnt = h.sums(p2['resting'])
    conj += [S.Eq(p2['visible'], d), S.Eq(p2['hidden'], hd), S.Eq(p2['count'], cnt)]
    return S.And(conj)


def roundtrip_cube(tier, path):
    smt.STATS.__init__()
    n, k = (2, 3) if tier == 'quick' else (3, 4)
    c = build({'seq': '', 'pre': {'N': n, 'K': k}, 'qty_mode': 'full', 'price': 3, 'default_unwind': n + 4, 'vec_cap': n + 2})
    h = c.h
    lv2, live, ok = rebuild(c, path, h.st.copy())
    a = base_assumptions(c)
    goals = [S.Not(ok), S.And(live, S.Not(same_content(h, h.level_value(), lv2))), live]
    names = ['%s always succeeds' % path, '%s: same price, same orders field for field, same aggregates (== sums)' % path,
             'reach: %s' % path]
    res = smt.run_batch(a, goals, timeout=300, label='C10/' + path[:14], model_vars=c.inp.vars)
    out = []
    for i, (nme, (verdict, model)) in enumerate(zip(names, res)):
        r = {'name': nme, 'kind': 'witness' if i == 2 else 'obligation', 'verdict': verdict}
        if verdict == 'unknown':
            r['why'] = model
        if verdict == 'sat':
            p2 = h.level_parts(lv2)
            script = {'kind': 'level', 'price': conc(h.P, model), 'namespace': uuid_str(conc(h.ns, model)),
                      'ops': state_recipe(c, model) + [{'op': PATHS[path]}]}
            r['script'] = script
            r['pred'] = {'visible': conc(p2['visible'], model), 'hidden': conc(p2['hidden'], model), 'count': conc(p2['count'], model),
                         'orders': sorted(canon(order_json(c.L, conc(o, model))) for occ, kk, o in p2['resting'] if conc(occ, model))}
            p1 = h.level_parts(h.level_value())
            r['orig'] = {'visible': conc(p1['visible'], model), 'hidden': conc(p1['hidden'], model), 'count': conc(p1['count'], model),
                         'orders': sorted(canon(order_json(c.L, conc(o, model))) for occ, kk, o in p1['resting'] if conc(occ, model))}
            r['desc'] = 'level with %d orders -> %s' % (len(r['orig']['orders']), path)
        out.append(r)
    return {'results': out, 'stats': cube_stats(c.ex, c.models)}


def external_cube(tier, ctor):
    """constructors fed an externally supplied snapshot / level-data whose aggregate fields are ARBITRARY"""
    smt.STATS.__init__()
    from ..scenario import make_engine
    from ..exec import State
    ex, L, models = make_engine()
    n = 2 if tier == 'quick' else 3
    ex.default_loop_bound = n + 4
    models.vec_cap = n + 2
    inp = Inputs(qty_mode='full')
    st = State()
    P = inp.var('price', 64)
    orders = [sym_order(L, inp, 'x%d' % i, oid=const_order_id(i + 1), price=P) for i in range(n)]
    m = S.ZExt(inp.var('len', 2), 64)
    dom = [S.Ule(m, S.bv(n, 64))]
    tot = S.bv(0, 70)
    for o in orders:
        v = OrderView(L, o)
        dom.append(S.Not(S.AddOvf(v.displayed, v.hidden)))
        tot = S.Add(tot, S.Add(S.ZExt(v.displayed, 70), S.ZExt(v.hidden, 70)))
    dom.append(S.Ult(tot, S.bv(1 << 64, 70)))
    carried = (inp.var('carried.visible', 64), inp.var('carried.hidden', 64), inp.var('carried.count', 64))
    value = (P,) + carried + (VecV(orders, m),)  # PriceLevelSnapshot and PriceLevelData have the same field order
    for nm in ('PriceLevelSnapshot', 'PriceLevelData'):
        assert L.structs[nm] == ['price', 'visible_quantity', 'hidden_quantity', 'order_count', 'orders'], L.structs[nm]
    if ctor == 'from_snapshot':
        r, st, live = ex.call('PriceLevel::from_snapshot', [value], st)
        lv, live = r.payloads[0][0], S.And(live, S.Eq(r.tag, S.bv(0, 64)))
    elif ctor == 'From<&PriceLevelSnapshot>':
        root = ex.alloc(st, value, 'snap')
        lv, st, live = ex.call('<PriceLevel as From<&PriceLevelSnapshot>>::from', [RefV(root, ())], st)
    else:
        r, st, live = ex.call('<PriceLevel as TryFrom<PriceLevelData>>::try_from', [value], st)
        lv, live = r.payloads[0][0], S.And(live, S.Eq(r.tag, S.bv(0, 64)))
    vis = lv[L.field_index('PriceLevel', 'visible_quantity')]
    hid = lv[L.field_index('PriceLevel', 'hidden_quantity')]
    cnt = lv[L.field_index('PriceLevel', 'order_count')]
    ev, eh = S.bv(0, 64), S.bv(0, 64)
    for i, o in enumerate(orders):
        inl = S.Ult(S.bv(i, 64), m)
        ev = S.Add(ev, S.Ite(inl, OrderView(L, o).displayed, S.bv(0, 64)))
        eh = S.Add(eh, S.Ite(inl, OrderView(L, o).hidden, S.bv(0, 64)))
    good = S.And(S.Eq(vis, ev), S.Eq(hid, eh), S.Eq(cnt, m))
    a = dom + models.assumptions + ([S.Not(S.Or([u[0] for u in ex.unwinds]))] if ex.unwinds else [])
    res = smt.run_batch(a, [S.And(live, S.Not(good)), live], timeout=300, label='C10/ext/' + ctor[:8], model_vars=inp.vars)
    out = []
    for i, (verdict, model) in enumerate(res):
        r = {'name': ('%s derives the aggregates from the contained orders, whatever the input carries' % ctor) if i == 0 else 'reach: ' + ctor,
             'kind': 'obligation' if i == 0 else 'witness', 'verdict': verdict}
        if verdict == 'unknown':
            r['why'] = model
        if verdict == 'sat':
            k = conc(m, model)
            ojs = [order_json(L, conc(o, model)) for o in orders[:k]]
            via = {'from_snapshot': 'from_snapshot', 'From<&PriceLevelSnapshot>': 'from_ref'}.get(ctor)
            op = {'op': 'from_snapshot_with' if via else 'from_data_with', 'price': conc(P, model), 'visible': conc(carried[0], model),
                  'hidden': conc(carried[1], model), 'count': conc(carried[2], model), 'orders': ojs}
            if via:
                op['via'] = via
            r['script'] = {'kind': 'level', 'price': conc(P, model), 'ops': [op]}
            mp = lv[L.field_index('PriceLevel', 'orders')][L.field_index('OrderQueue', 'orders')]
            r['pred'] = {'visible': conc(vis, model), 'hidden': conc(hid, model), 'count': conc(cnt, model),
                         'orders': sorted(canon(order_json(L, conc(o_, model))) for k_, occ_, o_ in mp.entries if conc(occ_, model))}
            r['desc'] = '%s(price=%d, carried visible=%d hidden=%d count=%d, %d orders)' % (ctor, op['price'], op['visible'], op['hidden'], op['count'], k)
        out.append(r)
    return {'results': out, 'stats': cube_stats(ex, models)}


def listing_cube(tier):
    """iter_orders: each resting order exactly once, non-decreasing timestamps, for every map iteration order"""
    smt.STATS.__init__()
    n, k = (3, 3) if tier == 'quick' else (4, 4)
    c = build({'seq': '', 'pre': {'N': n, 'K': k}, 'qty_mode': 'full', 'price': 3, 'default_unwind': n + 4, 'iter_symbolic': True})
    h, L = c.h, c.L
    lst = h.listing()
    pre = h.resting()
    once = []
    for occ, key, o in pre:
        cnt = S.Sum([S.B2BV(S.And(S.Ult(S.bv(i, 64), lst.length), veq(x, o)), 64) for i, x in enumerate(lst.cells) if x is not UNDEF], 64)
        once.append(S.Eq(cnt, S.B2BV(occ, 64)))
    n_present = S.Sum([S.B2BV(occ, 64) for occ, _, _ in pre], 64)
    srt = []
    for i in range(len(lst.cells) - 1):
        if lst.cells[i] is UNDEF or lst.cells[i + 1] is UNDEF:
            continue
        srt.append(S.Implies(S.Ult(S.bv(i + 1, 64), lst.length),
                             S.Ule(OrderView(L, lst.cells[i]).timestamp, OrderView(L, lst.cells[i + 1]).timestamp)))
    good = S.And(S.And(once), S.Eq(lst.length, n_present), S.And(srt))
    a = base_assumptions(c)
    res = smt.run_batch(a, [S.And(h.live, S.Not(good)), h.live], timeout=300, label='C10/listing', model_vars=c.inp.vars)
    names = ['iter_orders lists every resting order exactly once, timestamps non-decreasing, for every map iteration order', 'reach: listing']
    return {'results': [{'name': nm, 'kind': 'obligation' if i == 0 else 'witness', 'verdict': r[0], 'why': r[1] if r[0] == 'unknown' else None,
                         'model': {k: v for k, v in (r[1] or {}).items() if v not in (0, False)} if r[0] == 'sat' and i == 0 else None}
                        for i, (nm, r) in enumerate(zip(names, res))],
            'stats': cube_stats(c.ex, c.models)}


def run(tier, seed):
    run = Run('C10', tier, seed)
    tasks = [(roundtrip_cube, (tier, p)) for p in PATHS] + \
            [(external_cube, (tier, ct)) for ct in ('from_snapshot', 'From<&PriceLevelSnapshot>', 'TryFrom<PriceLevelData>')] + \
            [(listing_cube, (tier,))]
    run.bounds = {'round_trips_from': 'an ARBITRARY level state with <= %d resting orders (any types/quantities, so partially filled and replenished orders are included)' % (2 if tier == 'quick' else 3),
                  'paths': list(PATHS), 'external_inputs': 'snapshot / level-data with <= %d orders and ARBITRARY carried aggregates' % (2 if tier == 'quick' else 3),
                  'listing': 'arbitrary state, symbolic permutation of the map iteration order'}
    run.assumptions = ['package / JSON / text round trips are NOT part of this check: the package path depends on serde_json + SHA-256 (see C09 reasons), text and JSON forms on codec machinery (C16/C17); this check enters below the parser and leaves above the printer',
                       'std Vec / iterator / sort_by_key behave as specified (environment models); map iteration order arbitrary (symbolic permutation) in the listing obligation',
                       'order ids in an external list are pairwise different; quantities sum without overflow']
    for (fn, args), (res, err) in zip(tasks, parallel_map(tasks)):
        if err:
            run.inconclusive_('%s%r: %s' % (fn.__name__, args[1:], err))
            continue
        run.absorb_stats(res['stats'])
        for r in res['results']:
            if r['kind'] == 'witness':
                run.witnesses += 1
                if r['verdict'] != 'sat':
                    run.inconclusive_('vacuous witness %s: %s' % (r['name'], r['verdict']))
                    continue
                run.witness_sat += 1
                if 'script' not in r:
                    continue
            else:
                run.obligations += 1
                if r['verdict'] == 'unsat':
                    run.discharged += 1
                    continue
                if r['verdict'] != 'sat':
                    run.inconclusive_('%s: %s' % (r['name'], r.get('why')))
                    continue
                if 'script' not in r:
                    run.violation(r['name'][:40], {'property': 'C10', 'obligation': r['name'], 'model': r.get('model')})
                    continue
            nat = run_native(r['script'])
            run.replayed += 1
            stt = ((nat.get('results') or [{}])[-1]).get('state', {})
            got = {'visible': stt.get('visible'), 'hidden': stt.get('hidden'), 'count': stt.get('count'),
                   'orders': sorted(canon(o) for o in stt.get('orders', []))}
            if got != r['pred']:
                run.inconclusive_('%s: encoding and real crate disagree: predicted %s native %s' % (r['name'], canon(r['pred'])[:250], canon(got)[:250]))
                continue
            run.replay_ok += 1
            if r['kind'] == 'witness':
                if len(run.samples) < 10:
                    run.samples.append({'witness': r['name'], 'case': r['desc'], 'native_agrees': True})
            else:
                run.violation(r['name'][:40], {'property': 'C10', 'obligation': r['name'], 'case': r['desc'], 'script': r['script'],
                                               'rebuilt_level': got, 'original': r.get('orig'), 'native': nat})
    return run.finish(explanation='structural round trips (snapshot, &snapshot, level-data) from an arbitrary level state, constructors fed arbitrary carried aggregates, and the listing under every map iteration order')
