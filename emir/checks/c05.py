"""C05 - per-order matching follows the documented iceberg / reserve / plain rules.

Two engines decide the same statement and must agree:
  E-MIR : OrderType::match_against executed from its MIR for an arbitrary order of each variant and an
          arbitrary incoming quantity (all 64-bit values), oracle written from the property text;
  E-KANI: the harness crate /verif/kani (CBMC over the compiled crate), one harness per variant.
"""
import os, re, subprocess, time, json
from .. import sym as S
from .. import smt
from ..values import UNDEF, EnumV, RefV, veq
from ..scenario import make_engine, Inputs, sym_order, OrderView, ORDER_VARIANTS, fn_summary
from ..exec import State
from ..history import order_json, canon
from ..histcheck import conc
from ..framework import Run, run_native, VERIF, cube_stats, parallel_map

QTY = ('quantity', 'visible_quantity', 'hidden_quantity')
KANI = {'Standard': 'c05_standard', 'IcebergOrder': 'c05_iceberg', 'PostOnly': 'c05_post_only',
        'TrailingStop': 'c05_trailing_stop', 'PeggedOrder': 'c05_pegged', 'MarketToLimit': 'c05_market_to_limit',
        'ReserveOrder': 'c05_reserve'}


def oracle(L, o, q, ret, vi):
    """the statement of C05 for variant index vi, as (list of (rule name, term that must hold))"""
    consumed, upd, hred, rem = ret
    v = OrderView(L, o)
    D, H = v.displayed, v.hidden
    vn, fns, fts = L.enums['OrderType'][vi]
    some = S.Eq(upd.tag, S.bv(1, 64))
    leaves = S.Eq(upd.tag, S.bv(0, 64))
    rules = []
    rules.append(('consumed=min(incoming,displayed)', S.Eq(consumed, S.Umin(q, D))))
    rules.append(('remaining=incoming-consumed', S.Eq(rem, S.Sub(q, consumed))))
    u = upd.payloads.get(1, UNDEF)
    if u is not UNDEF:
        uo = u[0]
        uv = OrderView(L, uo)
        up = uo.payloads.get(vi, UNDEF)
        op = o.payloads[vi]
        rules.append(('variant kept', S.Implies(some, S.Eq(uo.tag, S.bv(vi, 64)))))
        if up is not UNDEF:
            same = [veq(a, b) for fn, a, b in zip(fns, up, op) if fn not in QTY]
            rules.append(('identity and type parameters unchanged', S.Implies(some, S.And(same))))
        Du, Hu = uv.displayed, uv.hidden
        rules.append(("total conserved: D'+H' = D+H-consumed",
                      S.Implies(some, S.Eq(S.Add(Du, Hu), S.Sub(S.Add(D, H), consumed)))))
    else:
        Du = Hu = S.bv(0, 64)
    zero = S.bv(0, 64)
    exhausted = S.Ule(D, q)
    if vn == 'IcebergOrder':
        tr = S.Umin(H, D)
        rules.append(('iceberg exhausted, nothing hidden: leaves',
                      S.Implies(S.And(exhausted, S.Eq(H, zero)), S.And(leaves, S.Eq(hred, zero)))))
        rules.append(('iceberg exhausted: new tranche min(hidden, old display) taken from hidden',
                      S.Implies(S.And(exhausted, S.Not(S.Eq(H, zero))),
                                S.And(some, S.Eq(Du, tr), S.Eq(Hu, S.Sub(H, tr)), S.Eq(hred, tr)))))
        rules.append(('iceberg partial: display shrinks, hidden untouched',
                      S.Implies(S.Not(exhausted), S.And(some, S.Eq(Du, S.Sub(D, q)), S.Eq(Hu, H), S.Eq(hred, zero)))))
    elif vn == 'ReserveOrder':
        thr = o.payloads[vi][fns.index('replenish_threshold')]
        amt_opt = o.payloads[vi][fns.index('replenish_amount')]
        auto = o.payloads[vi][fns.index('auto_replenish')]
        amt_cfg = S.Ite(S.Eq(amt_opt.tag, S.bv(1, 64)), amt_opt.payloads[1][0], S.bv(80, 64))
        amt = S.Umin(amt_cfg, H)
        thr_eff = S.Ite(S.And(auto, S.Eq(thr, zero)), S.bv(1, 64), thr)
        can = S.And(auto, S.Not(S.Eq(H, zero)))
        nv = S.Sub(D, q)
        rules.append(('reserve exhausted + auto + hidden: replenish by min(amount|80, hidden)',
                      S.Implies(S.And(exhausted, can),
                                S.And(some, S.Eq(Du, amt), S.Eq(Hu, S.Sub(H, amt)), S.Eq(hred, amt)))))
        rules.append(('reserve exhausted otherwise: leaves',
                      S.Implies(S.And(exhausted, S.Not(can)), S.And(leaves, S.Eq(hred, zero)))))
        below = S.And(S.Not(exhausted), S.Ult(nv, thr_eff), can)
        rules.append(('reserve partial below threshold: replenish',
                      S.Implies(below, S.And(some, S.Eq(Du, S.Add(nv, amt)), S.Eq(Hu, S.Sub(H, amt)), S.Eq(hred, amt)))))
        rules.append(('reserve partial otherwise: just shrinks',
                      S.Implies(S.And(S.Not(exhausted), S.Not(below)),
                                S.And(some, S.Eq(Du, nv), S.Eq(Hu, H), S.Eq(hred, zero)))))
    else:
        rules.append(('plain filled: leaves', S.Implies(exhausted, S.And(leaves, S.Eq(hred, zero)))))
        rules.append(('plain partial: shrinks', S.Implies(S.Not(exhausted),
                                                          S.And(some, S.Eq(Du, S.Sub(D, q)), S.Eq(hred, zero)))))
    return rules


def witnesses(L, o, q, ret, vi):
    consumed, upd, hred, rem = ret
    v = OrderView(L, o)
    D, H = v.displayed, v.hidden
    vn = L.enums['OrderType'][vi][0]
    some = S.Eq(upd.tag, S.bv(1, 64))
    w = [('partial fill', S.And(S.Ult(q, D), S.Not(S.Eq(q, S.bv(0, 64))))),
         ('full fill at 64-bit boundary', S.And(S.Ule(D, q), S.Eq(D, S.bv(-1, 64))))]
    if vn in ('IcebergOrder', 'ReserveOrder'):
        w.append(('replenished from hidden', S.And(some, S.Not(S.Eq(hred, S.bv(0, 64))))))
    if vn == 'ReserveOrder':
        w.append(('replenish amount 0 keeps an empty display', S.And(some, S.Eq(OrderView(L, upd.payloads[1][0]).displayed,
                                                                          S.bv(0, 64)), S.Not(S.Eq(H, S.bv(0, 64))))))
    return w


def emir_variant(vi, want_models=True):
    smt.STATS.__init__()
    ex, L, models = make_engine()
    inp = Inputs(qty_mode='full')
    o = sym_order(L, inp, 'o', variants=[vi])
    q = inp.var('incoming', 64)
    st = State()
    root = ex.alloc(st, o, 'order')
    ret, st2, live = ex.call('OrderType::<()>::match_against', [RefV(root, ()), q], st)
    v = OrderView(L, o)
    dom = [S.Not(S.AddOvf(v.displayed, v.hidden))]
    vn = L.enums['OrderType'][vi][0]
    rules = oracle(L, o, q, ret, vi)
    wit = witnesses(L, o, q, ret, vi)
    goals = [S.And(live, S.Not(t)) for _, t in rules] + [S.Or([p[0] for p in ex.panics])] + [S.And(live, t) for _, t in wit]
    names = [n for n, _ in rules] + ['no panic / overflow inside match_against'] + [n for n, _ in wit]
    kinds = ['obligation'] * (len(rules) + 1) + ['witness'] * len(wit)
    res = smt.run_batch(dom, goals, timeout=120, label='C05/' + vn, model_vars=inp.vars)
    out = []
    for n, k, g, (verdict, model) in zip(names, kinds, goals, res):
        r = {'variant': vn, 'name': n, 'kind': k, 'verdict': verdict}
        if verdict == 'unknown':
            r['why'] = model
        if verdict == 'sat':
            if not all(S.evaluate([g] + dom, model)):
                r['verdict'] = 'unknown'
                r['why'] = 'model rejected by own evaluator'
            else:
                oc = conc(o, model)
                qc = conc(q, model)
                rc = conc(ret, model)
                r['script'] = {'kind': 'order', 'ops': [{'op': 'match_against', 'order': order_json(L, oc), 'incoming': qc}]}
                r['pred'] = {'consumed': rc[0], 'updated': order_json(L, rc[1][2][0]) if rc[1][1] == 1 else None,
                             'hidden_reduced': rc[2], 'remaining': rc[3]}
                r['desc'] = 'match_against(%s, incoming=%d) -> %s' % (canon(order_json(L, oc)), qc, canon(r['pred']))
        out.append(r)
    return {'results': out, 'stats': cube_stats(ex, models)}


def kani_variant(vn):
    h = KANI[vn]
    env = dict(os.environ)
    env['KANI_TARGET_DIR'] = os.path.join(VERIF, '.cache', 'kani-target')
    t0 = time.time()
    p = subprocess.run([os.path.join(VERIF, 'kani', 'run.sh'), h], stdout=subprocess.PIPE, stderr=subprocess.STDOUT,
                       universal_newlines=True, env=env)
    line = [l for l in p.stdout.strip().split('\n') if l.startswith('RESULT')]
    return {'harness': h, 'rc': p.returncode, 'line': line[-1] if line else p.stdout[-300:], 'time_s': round(time.time() - t0, 1)}


def run(tier, seed):
    run = Run('C05', tier, seed)
    run.assumptions = ['displayed + hidden <= u64::MAX (quantifier of C05)',
                       'Kani side: CBMC bit-precise model of the compiled crate, unwinding assertions on (unwind 17 for id comparison)',
                       'E-MIR side: rustc MIR (overflow-checks on); no environment model is involved (loop-free, call-free code except derived Clone)']
    run.bounds = {'integers': 'full 64-bit, no bound beyond machine width', 'loops': 'none (loop-free code)',
                  'variants': ORDER_VARIANTS}
    L = None
    tasks = [(emir_variant, (vi,)) for vi in range(len(ORDER_VARIANTS))]
    emir = parallel_map(tasks)
    emir_ok = {}
    for vi, (res, err) in enumerate(emir):
        vn = ORDER_VARIANTS[vi]
        if err:
            run.inconclusive_('E-MIR %s: %s' % (vn, err))
            continue
        run.absorb_stats(res['stats'])
        ok = True
        for r in res['results']:
            if r['kind'] == 'obligation':
                run.obligations += 1
                if r['verdict'] == 'unsat':
                    run.discharged += 1
                elif r['verdict'] == 'sat':
                    ok = False
                    nat = run_native(r['script'])
                    run.replayed += 1
                    got = (nat.get('results') or [{}])[0]
                    if canon(got) == canon(r['pred']):
                        run.replay_ok += 1
                        run.violation('%s %s' % (vn, r['name']), {'property': 'C05', 'rule': r['name'], 'call': r['desc'],
                                                                   'script': r['script'], 'native': nat})
                    else:
                        run.inconclusive_('E-MIR counterexample does not reproduce: %s native=%s' % (r['desc'], canon(got)))
                else:
                    ok = False
                    run.inconclusive_('E-MIR %s %s: %s' % (vn, r['name'], r.get('why')))
            else:
                run.witnesses += 1
                if r['verdict'] == 'sat':
                    run.witness_sat += 1
                    nat = run_native(r['script'])
                    run.replayed += 1
                    got = (nat.get('results') or [{}])[0]
                    if canon(got) == canon(r['pred']):
                        run.replay_ok += 1
                        if len(run.samples) < 10:
                            run.samples.append({'variant': vn, 'witness': r['name'], 'call': r['desc'], 'native_agrees': True})
                    else:
                        run.inconclusive_('witness %s/%s: encoding predicts %s, real crate returns %s'
                                          % (vn, r['name'], canon(r['pred']), canon(got)))
                else:
                    run.inconclusive_('vacuous witness %s/%s: %s' % (vn, r['name'], r['verdict']))
        emir_ok[vn] = ok
    # second engine
    kani_res = []
    if os.environ.get('VERIF_NO_KANI') != '1':
        for vn in ORDER_VARIANTS:
            k = kani_variant(vn)
            kani_res.append(k)
            run.obligations += 1
            run.solver_queries += 1
            if k['rc'] == 0:
                run.discharged += 1
                if emir_ok.get(vn) is False:
                    run.inconclusive_('engine disagreement on %s: E-MIR found a violation, Kani passes' % vn)
            elif k['rc'] == 1:
                pb = os.path.join(VERIF, '.cache', 'kani-logs', k['harness'] + '.playback.rs')
                if emir_ok.get(vn) is True:
                    run.inconclusive_('engine disagreement on %s: Kani fails (%s), E-MIR passes' % (vn, k['line']))
                elif not any(vn in v[0] for v in run.violations):
                    run.violation('%s kani' % vn, {'property': 'C05', 'harness': k['harness'], 'playback': open(pb).read() if os.path.exists(pb) else None})
            else:
                run.inconclusive_('Kani harness %s: %s' % (k['harness'], k['line']))
    run.extra['kani'] = kani_res
    run.extra['engines'] = ['E-MIR (MIR->SMT, z3 integer encoding of 64-bit arithmetic)', 'E-KANI (Kani 0.68 / CBMC 6.11, cadical)']
    return run.finish(explanation='match_against decided for every order of every variant and every incoming quantity at '
                                  'full 64-bit width by two independent encoders against the rule set of the statement')
