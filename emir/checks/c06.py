"""C06 - matching always terminates and exhausts the displayed liquidity."""
import os
from .. import sym as S
from ..values import UNDEF, veq
from ..scenario import OrderView
from ..histcheck import match_unwind_for, panic_obligations, reach_witness, busy_witness, sequences, run_hist
from ..framework import Run, load_known

W = 70


def avail_count(tickets):
    n = S.bv(0, 64)
    for _, present, popped, _ in tickets:
        n = S.Add(n, S.B2BV(S.And(present, S.Not(popped)), 64))
    return n


def obligations(c):
    h, L = c.h, c.L
    out = []
    for k, p in enumerate(c.params):
        if p['op'] not in 'MI':
            continue
        rec = p['rec']
        q = p['q'] if p['op'] == 'M' else rec['start']['remaining']
        pre_parts = h.level_parts(rec['pre_level'])
        for j, cut in enumerate(rec.get('cuts') or []):
            # progress lemma: one loop iteration from an arbitrary state either trades, or strictly shrinks the
            # set of tickets this call can still reach; (remaining, reachable tickets) then decreases
            # lexicographically, so every call returns
            parts = h.level_parts(cut['level'])
            same_rem = S.Eq(cut['remaining'], q)
            progress = S.Or(S.Ult(cut['remaining'], q),
                            S.And(same_rem, S.Ult(parts['hidden'], pre_parts['hidden'])),
                            S.And(same_rem, S.Eq(parts['hidden'], pre_parts['hidden']),
                                  S.Ult(avail_count(parts['tickets']), avail_count(pre_parts['tickets']))))
            o = {'name': 'step%d:%s progress: an iteration trades, replenishes, or shrinks the ticket queue' % (k, p['op']),
                 'kind': 'obligation', 'goal': S.And(cut['guard'], S.Not(progress))}
            if p['op'] == 'M':
                o['expect_hang'] = k
                # replayable region: a request larger than everything the level holds cannot end by being filled, so an
                # iteration without progress means the real call spins
                o['prefer'] = S.Ugt(S.ZExt(q, 70), h.total_supply(rec['pre_level'], 70))
            out.append(o)
        if p['op'] == 'I':
            # exhaustion by induction: the makers a call has set aside display nothing (assumed at the loop head,
            # re-established at the next one); together with "every resting order is covered by a ticket" an exit with
            # quantity remaining leaves no displayed quantity behind
            from .c01 import set_aside_entries
            start_sa = set_aside_entries(rec['start']['locals'])
            for v, _, o in start_sa:
                c.domain.append(S.Implies(v, S.Eq(OrderView(L, o).displayed, S.bv(0, 64))))
            for cut in rec.get('cuts') or []:
                good = S.And([S.Implies(v, S.Eq(OrderView(L, o).displayed, S.bv(0, 64))) for v, _, o in set_aside_entries(cut['locals'])])
                out.append({'name': 'step%d:I makers set aside by the call display nothing' % k, 'kind': 'obligation',
                            'goal': S.And(cut['guard'], S.Not(good))})
            if rec['ret'] is not None:
                mr = dict(zip(L.structs['MatchResult'], rec['ret']))
                none_left = S.And([S.Implies(occ, S.Eq(OrderView(L, o).displayed, S.bv(0, 64))) for occ, key, o in rec['post']])
                out.append({'name': 'step%d:I a call that ends with quantity remaining leaves no displayed quantity (any number of iterations)' % k,
                            'kind': 'obligation',
                            'goal': S.And(p['live'], S.Not(S.Eq(mr['remaining_quantity'], S.bv(0, 64))), S.Not(none_left))})
            continue
        if rec['ret'] is None:
            continue
        live = p['live']
        mr = dict(zip(L.structs['MatchResult'], rec['ret']))
        rem = mr['remaining_quantity']
        # post-conditions of a call that returned
        none_left = S.And([S.Implies(occ, S.Eq(OrderView(L, o).displayed, S.bv(0, 64))) for occ, key, o in rec['post']])
        out.append({'name': 'step%d:M returns with remainder => no displayed quantity left' % k, 'kind': 'obligation',
                    'goal': S.And(live, S.Not(S.Eq(rem, S.bv(0, 64))), S.Not(none_left))})
        disp = S.bv(0, W)
        for occ, key, o in rec['pre']:
            disp = S.Add(disp, S.Ite(occ, S.ZExt(OrderView(L, o).displayed, W), S.bv(0, W)))
        executed = S.Sub(S.ZExt(q, W), S.ZExt(rem, W))
        need = S.Ite(S.Ult(S.ZExt(q, W), disp), S.ZExt(q, W), disp)
        out.append({'name': 'step%d:M executes at least min(requested, displayed at start)' % k, 'kind': 'obligation',
                    'goal': S.And(live, S.Ult(executed, need))})
    return out


def prop(c):
    return obligations(c) + [reach_witness(c), busy_witness(c)]


def cubes(tier):
    out = []
    if tier == 'quick':
        n, k, L, depth, nadds, price = 2, 3, 3, 3, 2, 1
    else:
        n, k, L, depth, nadds, price = 3, 5, 4, 4, 2, 1
    # progress lemma (loop cut after one iteration, arbitrary state, zero quantities allowed)
    out.append({'seq': 'M', 'pre': {'N': n, 'K': k}, 'cut_after': 1, 'pop_unwind': k + 2, 'qty_mode': 'full',
                'price': price, 'assume_unwind': False, 'family': 'progress-lemma'})
    out.append({'seq': 'I', 'pre': {'N': n, 'K': k}, 'cut_after': 1, 'pop_unwind': k + 2, 'qty_mode': 'full',
                'price': price, 'assume_unwind': False, 'family': 'progress-lemma', 'native': False})
    # post-conditions of returned calls: one match from an arbitrary state, L iterations
    out.append({'seq': 'M', 'pre': {'N': n, 'K': k}, 'match_unwind': L, 'pop_unwind': k + L + 1, 'qty_mode': 'full',
                'price': price, 'family': 'post-conditions'})
    for s in sequences(depth, nadds):
        if 'M' not in s:
            continue
        mu = match_unwind_for(s, 5)
        out.append({'seq': s, 'match_unwind': mu, 'pop_unwind': depth + 3, 'qty_mode': 'full', 'price': price,
                    'family': 'history'})
    return out


def run(tier, seed):
    run = Run('C06', tier, seed)
    cs = cubes(tier)
    if os.environ.get('VERIF_CUBES'):
        cs = [c for c in cs if c['seq'] in os.environ['VERIF_CUBES'].split(',')]
    known, fixed = load_known('C06')
    run.bounds = {'progress_lemma': {'resting_orders_N': cs[0]['pre']['N'], 'tickets_K': cs[0]['pre']['K'],
                                     'iterations': 'one, from an arbitrary loop-head state (induction covers any number)',
                                     'pop_loop': 'unwinding asserted'},
                  'post_conditions': {'match_loop_unwind': cs[2]['match_unwind'] if len(cs) > 2 else None, 'histories_depth_D': len(cs[-1]['seq'])},
                  'quantities': 'free 64-bit including 0', 'cubes': len(cs)}
    from .c01 import STD_ASSUMPTIONS
    run.assumptions = STD_ASSUMPTIONS + [
        'termination argument: the measure (remaining quantity, level hidden quantity, tickets still reachable by this call), ordered lexicographically, is well founded; the solver decides that every iteration decreases it',
        'post-conditions are decided for calls that return within the stated unwinding bound']
    run_hist(run, prop, cs, timeout=300 if tier == 'quick' else 900, known_keys=[f['key'] for f in known])
    return run.finish(explanation='termination by a solver-checked progress lemma on one loop iteration from an arbitrary level state; '
                                  'exhaustion post-conditions on bounded runs')
