"""C14 - transaction ids are unique across threads and reproducible."""
import os
from .. import sym as S
from .. import smt
from ..values import RefV
from ..scenario import make_engine, Inputs
from ..exec import State
from ..conccheck import run_conc
from ..framework import Run, load_known, parallel_map, cube_stats
from .c03 import CONC_ASSUMPTIONS


def obls(P):
    c = P.c
    L = c.L
    ids = []
    for t in P.threads:
        if t.op == 'M':
            # the transaction ids a concurrent match draws from the shared generator
            mr = dict(zip(L.structs['MatchResult'], t.ret))
            txs = mr['transactions'][0]
            for i, x in enumerate(txs.cells):
                ids.append((t.name, dict(zip(L.structs['Transaction'], x))['transaction_id'], S.Ult(S.bv(i, 64), txs.length)))
            continue
        for x in t.ret:
            ids.append((t.name, x, S.TRUE))
    # injectivity of UUID v5 on (namespace, decimal counter): assumed (uninterpreted function + axiom)
    apps = c.models.v5_apps
    ax = []
    for i in range(len(apps)):
        for j in range(i):
            a, b = apps[i], apps[j]
            ax.append(S.Implies(S.Eq(a[2], b[2]), S.And(S.Eq(a[0], b[0]), S.Eq(a[1], b[1]))))
    c.domain += ax
    distinct = []
    for i in range(len(ids)):
        for j in range(i):
            distinct.append(S.Implies(S.And(ids[i][2], ids[j][2]), S.Not(S.Eq(ids[i][1], ids[j][1]))))
    return [{'name': 'all ids issued through the shared generator by the two threads (up to %d) are pairwise different' % len(ids),
             'goal': S.And(P.live, S.Not(S.And(distinct)))},
            {'name': 'reach: both threads complete', 'kind': 'witness', 'goal': P.live}]


def reproducible(ncalls):
    """two generators with the same namespace issue the same ids for the same number of calls (sequential)"""
    smt.STATS.__init__()
    ex, L, models = make_engine()
    inp = Inputs(qty_mode='full')
    st = State()
    ns = inp.var('ns', 128)
    seqs = []
    for g in range(2):
        gen, st, _ = ex.call('UuidGenerator::new', [ns], st)
        root = ex.alloc(st, gen, 'gen%d' % g)
        ids = []
        for _ in range(ncalls):
            r, st, l = ex.call('UuidGenerator::next', [RefV(root, ())], st)
            ids.append(r)
        seqs.append(ids)
    same = S.And([S.Eq(a, b) for a, b in zip(*seqs)])
    within = []
    apps = models.v5_apps
    ax = []
    for i in range(len(apps)):
        for j in range(i):
            a, b = apps[i], apps[j]
            ax.append(S.Implies(S.Eq(a[2], b[2]), S.And(S.Eq(a[0], b[0]), S.Eq(a[1], b[1]))))
    for i in range(ncalls):
        for j in range(i):
            within.append(S.Not(S.Eq(seqs[0][i], seqs[0][j])))
    res = smt.run_batch(ax + models.assumptions, [S.Not(same), S.Not(S.And(within))], timeout=120, model_vars=inp.vars)
    names = ['two generators with equal namespace issue equal id sequences (%d calls)' % ncalls,
             'one generator never repeats an id (%d sequential calls from a fresh generator)' % ncalls]
    return {'results': [{'name': n, 'verdict': r[0], 'model': r[1]} for n, r in zip(names, res)], 'stats': cube_stats(ex, models)}


def injective():
    """next() is an injective function of the counter and advances it by exactly one: two generators of one namespace
    standing at two DIFFERENT arbitrary counter values issue different ids.  With the +1 step this is the inductive form of
    'no call ever returns an id that another call has returned or will return' for any number of calls (no bound on the
    distance between the two calls, unlike the consecutive-calls obligations)"""
    smt.STATS.__init__()
    ex, L, models = make_engine()
    inp = Inputs(qty_mode='full')
    st = State()
    ns = inp.var('ns', 128)
    cs = [inp.var('c1', 64), inp.var('c2', 64)]
    gen, st, _ = ex.call('UuidGenerator::new', [ns], st)
    ci = L.field_index('UuidGenerator', 'counter')
    ids, after, live = [], [], []
    for k, c in enumerate(cs):
        root = ex.alloc(st, gen[:ci] + (c,) + gen[ci + 1:], 'genc%d' % k)
        r, st, l = ex.call('UuidGenerator::next', [RefV(root, ())], st)
        ids.append(r)
        live.append(l)
        after.append(st.mem[root][ci])
    apps = models.v5_apps
    ax = []
    for i in range(len(apps)):
        for j in range(i):
            a, b = apps[i], apps[j]
            ax.append(S.Implies(S.Eq(a[2], b[2]), S.And(S.Eq(a[0], b[0]), S.Eq(a[1], b[1]))))
    top = S.bv((1 << 64) - 1, 64)
    dom = [S.Ult(cs[0], top), S.Ult(cs[1], top)]
    both = S.And(live)
    goals = [S.And(both, S.Not(S.Eq(cs[0], cs[1])), S.Eq(ids[0], ids[1])),
             S.And(both, S.Not(S.Eq(after[0], S.Add(cs[0], S.bv(1, 64))))),
             both]
    res = smt.run_batch(ax + dom + models.assumptions, goals, timeout=120, model_vars=inp.vars)
    names = ['generators of one namespace standing at different counter values issue different ids (any distance between the calls)',
             'next() advances the counter by exactly one',
             'reach: next() returns from an arbitrary counter value']
    return {'results': [{'name': n, 'verdict': r[0], 'model': r[1]} for n, r in zip(names, res)], 'stats': cube_stats(ex, models)}


def run(tier, seed):
    run = Run('C14', tier, seed)
    calls = 2 if tier == 'quick' else 3
    base = {'pre': {'N': 1, 'K': 1}, 'match_unwind': 1, 'pop_unwind': 3, 'qty_mode': 'full', 'price': 1, 'calls': calls,
            'arbitrary_generator': True}
    run.bounds = {'threads': 2, 'calls_per_thread': calls, 'generator_counter_at_start': 'arbitrary 64-bit value', 'namespace': 'arbitrary 128-bit value',
                  'reproducibility_calls': 4}
    run.assumptions = CONC_ASSUMPTIONS[:2] + ['UUID v5 of (namespace, decimal text of the counter) is injective: uninterpreted function with injectivity axiom (SHA-1 collisions and decimal printing are outside the claim)',
                                              'counter wrap-around after 2^64 calls is outside the claim (the arbitrary start value is assumed < 2^64 - calls)']
    known, fixed = load_known('C14')
    run_conc(run, ['NN'], 'emir.checks.c14.obls', timeout=120, base=base)
    # a match draws its transaction ids from the same generator: match || next
    mbase = {'pre': {'N': 2, 'K': 3}, 'match_unwind': 2, 'pop_unwind': 6, 'qty_mode': 'full', 'price': 1, 'calls': 2,
             'arbitrary_generator': True}
    run.bounds['match_vs_next'] = {'programs': ['MN', 'NM'], 'resting_orders_N': 2, 'tickets_K': 3, 'match_loop_unwind': 2}
    run_conc(run, ['MN', 'NM'], 'emir.checks.c14.obls', timeout=300, base=mbase)
    (res, err), = parallel_map([(reproducible, (4,))], jobs=1)
    if err:
        run.inconclusive_('reproducibility: ' + err)
    else:
        run.absorb_stats(res['stats'])
        for r in res['results']:
            run.obligations += 1
            if r['verdict'] == 'unsat':
                run.discharged += 1
            elif r['verdict'] == 'sat':
                ns = r['model'].get('ns', 0)
                # native confirmation: two fresh generators with this namespace
                from ..framework import run_native
                from ..history import uuid_str
                outs = []
                for _ in range(2):
                    nat = run_native({'kind': 'level', 'price': 1, 'namespace': uuid_str(ns), 'ops': [{'op': 'next', 'n': 4}]})
                    outs.append((nat.get('results') or [{}])[0].get('ids'))
                if outs[0] != outs[1] or (outs[0] and len(set(outs[0])) != len(outs[0])):
                    run.violation(r['name'][:40], {'property': 'C14', 'obligation': r['name'], 'namespace': uuid_str(ns), 'native_runs': outs})
                else:
                    run.inconclusive_('%s: model namespace %s does not reproduce natively (%s)' % (r['name'], uuid_str(ns), outs))
            else:
                run.inconclusive_('%s: %s' % (r['name'], r['model']))
    (res, err), = parallel_map([(injective, ())], jobs=1)
    run.bounds['injectivity'] = 'two arbitrary 64-bit counter values (< 2^64 - 1), arbitrary namespace; one call each'
    if err:
        run.inconclusive_('injectivity: ' + err)
    else:
        from ..framework import run_native
        from ..history import uuid_str
        run.absorb_stats(res['stats'])
        for i, r in enumerate(res['results']):
            if i == 2:
                run.witnesses += 1
                if r['verdict'] == 'sat':
                    run.witness_sat += 1
                else:
                    run.inconclusive_('vacuous witness %s: %s' % (r['name'], r['verdict']))
                continue
            run.obligations += 1
            if r['verdict'] == 'unsat':
                run.discharged += 1
            elif r['verdict'] == 'sat':
                m = r['model']
                ns, c1, c2 = m.get('ns', 0), m.get('c1', 0), m.get('c2', 0)
                outs = []
                for c0, n in ((c1, 2), (c2, 1)):
                    nat = run_native({'kind': 'level', 'price': 1, 'namespace': uuid_str(ns), 'generator_counter': c0, 'ops': [{'op': 'next', 'n': n}]})
                    outs.append((nat.get('results') or [{}])[0].get('ids'))
                script = {'namespace': uuid_str(ns), 'counters': [c1, c2], 'native_ids': outs}
                if i == 0:
                    bad = bool(outs[0]) and bool(outs[1]) and outs[0][0] == outs[1][0]
                else:
                    # the second id of a generator at c1 must be the first id of a generator at c1 + 1
                    nat = run_native({'kind': 'level', 'price': 1, 'namespace': uuid_str(ns), 'generator_counter': (c1 + 1) % (1 << 64), 'ops': [{'op': 'next', 'n': 1}]})
                    nxt = (nat.get('results') or [{}])[0].get('ids')
                    script['native_ids_at_c1_plus_1'] = nxt
                    bad = bool(outs[0]) and bool(nxt) and outs[0][1] != nxt[0]
                if bad:
                    run.violation(r['name'][:40], dict({'property': 'C14', 'obligation': r['name']}, **script))
                else:
                    run.inconclusive_('%s: the model (namespace %s, counters %d / %d) does not reproduce natively (%s)' % (r['name'], uuid_str(ns), c1, c2, outs))
            else:
                run.inconclusive_('%s: %s' % (r['name'], r['model']))
    return run.finish(explanation='uniqueness: the ids of 2 threads x N calls are pairwise different for every well-nested schedule, every namespace and every start counter; '
                                  'reproducibility: two generators with equal namespace issue equal sequences')
