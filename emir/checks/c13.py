"""C13 - cancel / amend acknowledgements stay truthful under concurrency."""
import os
from .. import sym as S
from ..conccheck import run_conc, ob_ack, ob_conservation
from ..framework import Run, load_known
from .c03 import CONC_ASSUMPTIONS, base

PROGRAMS_QUICK = ['CM', 'MC', 'QM', 'MQ', 'CC', 'CQ', 'QC', 'QQ', 'CA', 'AC', 'PM', 'MP', 'BM', 'MB', 'PC', 'CP', 'XC', 'CX']
PROGRAMS_THOROUGH = PROGRAMS_QUICK + ['QA', 'AQ', 'XM', 'MX', 'BQ', 'QB', 'PP', 'BB', 'XX', 'PQ', 'QP']


def obls(P):
    o = ob_ack(P)
    # a cancel that reports success has really taken the order out: nothing of it is executed or handed out twice
    o.append(ob_conservation(P)[0])
    o.append({'name': 'reach: both threads complete', 'kind': 'witness', 'goal': P.live})
    return o


def run(tier, seed):
    run = Run('C13', tier, seed)
    progs = PROGRAMS_QUICK if tier == 'quick' else PROGRAMS_THOROUGH
    if os.environ.get('VERIF_CUBES'):
        progs = os.environ['VERIF_CUBES'].split(',')
    b = base(tier)
    run.bounds = {'threads': 2, 'operations_per_thread': 1, 'programs': progs, 'resting_orders_N': b['pre']['N'],
                  'tickets_K': b['pre']['K'], 'match_loop_unwind': b['match_unwind']}
    run.assumptions = CONC_ASSUMPTIONS + ['"nothing removes it" is decided as: the order rests before the call and still rests at quiescence (no thread re-adds ids in these programs)']
    known, fixed = load_known('C13')
    run_conc(run, progs, 'emir.checks.c13.obls', timeout=300, known_keys=[f['key'] for f in known], base=b)
    return run.finish(explanation='acknowledgements of cancel / quantity amend compared with the book before and after, for every well-nested placement of the other thread')
