"""Bounded symbolic executor over rustc MIR (merge mode).

Control flow of the real MIR bodies is followed block by block.  At a `switchInt` with more
than one syntactically feasible target every target is executed under its guard up to the
immediate post-dominator of the switch and the resulting states are merged with `ite`.  A block
entered more than `loop_bound` times along one control path raises an *unwinding event*
(guard recorded, path cut).  Calls to functions of the crate are inlined from their own MIR;
all other callees must have an environment model (models.py) or the run fails closed.
"""
import re, sys, threading
from . import sym as S
from . import mir as M
from .values import (UNDEF, UNIT, EnumV, RefV, VecV, Poison, Unsupported, merge, enum_const, none, some)

EXIT = M.EXIT

BUILTIN_ENUMS = {
    'Option': ['None', 'Some'],
    'Result': ['Ok', 'Err'],
    'ControlFlow': ['Continue', 'Break'],
    'Ordering': None,  # two different enums share this name; resolved by path
    'Cow': ['Borrowed', 'Owned'],
}
ATOMIC_ORDERING = ['Relaxed', 'Release', 'Acquire', 'AcqRel', 'SeqCst']
CMP_ORDERING = {'Less': -1, 'Equal': 0, 'Greater': 1}


class State(object):
    __slots__ = ('mem',)

    def __init__(self, mem=None):
        self.mem = mem if mem is not None else {}

    def copy(self):
        return State(dict(self.mem))


def merge_states(results):
    """results: list of (cond, State); conds are mutually exclusive; returns merged State"""
    if len(results) == 1:
        return results[0][1]
    acc = results[-1][1]
    for c, s in reversed(results[:-1]):
        mem = {}
        am = acc.mem
        sm = s.mem
        for k in set(am) | set(sm):
            x = sm.get(k, UNDEF)
            y = am.get(k, UNDEF)
            if x is y:
                mem[k] = x
            else:
                try:
                    mem[k] = merge(c, x, y)
                except Unsupported as e:
                    raise Unsupported('merging %r: %s' % (k, e))
        acc = State(mem)
    return acc


class _NoFrame(object):
    """stand-in frame for calls that do not come from a MIR call terminator"""

    class _F(object):
        def __init__(self, name):
            self.name = name

    def __init__(self, name):
        self.fn = _NoFrame._F('<fn item %s>' % name)
        self.fid = -1


class Frame(object):
    __slots__ = ('fn', 'fid')

    def __init__(self, fn, fid):
        self.fn = fn
        self.fid = fid


def load_path(v, path):
    for step in path:
        if v is UNDEF:
            return UNDEF
        if isinstance(step, int):
            if isinstance(v, tuple):
                if step >= len(v):
                    raise Unsupported('field %d of %r' % (step, v))
                v = v[step]
            elif isinstance(v, VecV) and step < len(v.cells):
                v = v.cells[step]
            else:
                raise Unsupported('field projection .%d on %r' % (step, v))
        else:
            k = step[1]
            if not isinstance(v, EnumV):
                raise Unsupported('downcast on non-enum %r' % (v,))
            v = v.payloads.get(k, UNDEF)
    return v


def store_path(v, path, new):
    if not path:
        return new
    step = path[0]
    if isinstance(step, int):
        if isinstance(v, tuple):
            return v[:step] + (store_path(v[step], path[1:], new),) + v[step + 1:]
        if isinstance(v, VecV):
            cells = list(v.cells)
            cells[step] = store_path(cells[step], path[1:], new)
            return VecV(cells, v.length)
        raise Unsupported('store into field %d of %r' % (step, v))
    k = step[1]
    if not isinstance(v, EnumV):
        raise Unsupported('store through downcast of %r' % (v,))
    p = dict(v.payloads)
    p[k] = store_path(p.get(k, UNDEF), path[1:], new)
    return EnumV(v.tag, p)


def type_head(t):
    return M._type_head(t)


def deref_type(t):
    t = t.strip()
    m = re.match(r"^&\s*(?:'\w+\s+)?(?:mut\s+)?(.*)$", t, re.S)
    if m:
        return m.group(1).strip()
    m = re.match(r'^\*(?:const|mut)\s+(.*)$', t, re.S)
    if m:
        return m.group(1).strip()
    m = re.match(r'^(?:std::boxed::)?Box<(.*)>$', t, re.S)
    if m:
        return m.group(1).strip()
    m = re.match(r'^(?:std::sync::)?Arc<(.*)>$', t, re.S)
    if m:
        return m.group(1).strip()
    return t


class Executor(object):
    def __init__(self, crate, layouts, models=None):
        self.crate = crate
        self.layouts = layouts
        self.models = models
        self.loop_bounds = {}
        self.default_loop_bound = 6
        self.max_depth = 60
        self.reset()
        self._resolve_cache = {}
        self.fns_used = {}
        self.shared_hook = None
        self.call_hook = None
        self.capture_cuts = False
        self.block_bounds = {}

    def reset(self):
        self.panics = []  # (guard, message, fn name, bb)
        self.unwinds = []  # (guard, fn name, bb)
        self.unreach = []  # (guard, fn name, bb)
        self.next_fid = 0
        self.next_heap = 0
        self.nstmts = 0
        self.nblocks = 0
        self.ncalls = 0
        self.nmodel_calls = 0
        self.nmerges = 0
        self.depth = 0
        self.nshared = 0
        self.cuts = []

    # ------------------------------------------------------------ shared-memory steps
    def shared(self, kind, ref, st, pc):
        """called by the models of atomics / map / queue before the operation takes effect"""
        self.nshared += 1
        if self.shared_hook is not None:
            return self.shared_hook(self, kind, ref, st, pc)
        return st

    # ------------------------------------------------------------ heap
    def alloc(self, st, v, tag='h'):
        self.next_heap += 1
        root = ('H', tag, self.next_heap)
        st.mem[root] = v
        return root

    # ------------------------------------------------------------ types
    def place_type(self, fr, place):
        t = fr.fn.local_ty.get(place.local)
        for p in place.proj:
            if p[0] == 'deref':
                t = deref_type(t) if t else None
            elif p[0] == 'field':
                t = p[2]
            elif p[0] in ('index', 'cindex'):
                if t:
                    m = re.match(r'^\[(.*?)(; .*)?\]$', t.strip(), re.S)
                    t = m.group(1) if m else None
        return t

    def operand_type(self, fr, op):
        if op[0] in ('copy', 'move'):
            return self.place_type(fr, op[1])
        c = op[1]
        if c[0] == 'int':
            return c[2]
        if c[0] == 'bool':
            return 'bool'
        if c[0] == 'named':
            m = re.search(r'<impl ([ui](?:8|16|32|64|128|size))>::(MAX|MIN)$', c[1])
            if m:
                return m.group(1)
            k = c[1].split('::')[-1]
            if k in self.crate.consts:
                return self.crate.consts[k][0]
        return None

    def variant_index(self, ty, vname):
        head = type_head(ty) if ty else None
        if head in self.layouts.enums and head not in BUILTIN_ENUMS:
            try:
                return self.layouts.variant_index(head, vname)
            except KeyError:
                pass
        if head in BUILTIN_ENUMS and BUILTIN_ENUMS[head]:
            return BUILTIN_ENUMS[head].index(vname)
        # unique-name fallback
        hits = []
        for e, vs in BUILTIN_ENUMS.items():
            if vs and vname in vs:
                hits.append(vs.index(vname))
        for e, vs in self.layouts.enums.items():
            for i, (n, _, _) in enumerate(vs):
                if n == vname:
                    hits.append(i)
        if len(set(hits)) == 1:
            return hits[0]
        raise Unsupported('cannot determine index of variant %s of %r' % (vname, ty))

    # ------------------------------------------------------------ places
    def resolve_place(self, fr, place, st):
        root = ('L', fr.fid, place.local)
        path = ()
        ty = fr.fn.local_ty.get(place.local)
        for p in place.proj:
            k = p[0]
            if k == 'deref':
                v = load_path(st.mem.get(root, UNDEF), path)
                if isinstance(v, RefV):
                    root, path = v.root, v.path
                elif v is UNDEF:
                    raise Unsupported('deref of UNDEF at %r in %s' % (place, fr.fn.name))
                else:
                    # transparent smart pointer (Arc/Box): the value is the pointee
                    pass
                ty = deref_type(ty) if ty else None
            elif k == 'field':
                path = path + (p[1],)
                ty = p[2]
            elif k == 'downcast':
                path = path + (('v', self.variant_index(ty, p[1])),)
            elif k == 'cindex':
                path = path + (p[1],)
                ty = None
            elif k == 'index':
                iv = st.mem.get(('L', fr.fid, p[1]), UNDEF)
                if isinstance(iv, S.Term) and S.is_const(iv):
                    path = path + (S.cval(iv),)
                    ty = None
                else:
                    raise Unsupported('symbolic index projection in %s' % fr.fn.name)
            else:
                raise Unsupported('projection ' + k)
        return root, path

    def read_place(self, fr, place, st):
        root, path = self.resolve_place(fr, place, st)
        v = load_path(st.mem.get(root, UNDEF), path)
        if isinstance(v, Poison):
            raise Unsupported('use of poisoned value (%s) at %r in %s' % (v.why, place, fr.fn.name))
        return v

    def write_place(self, fr, place, val, st):
        root, path = self.resolve_place(fr, place, st)
        if not path:
            st.mem[root] = val
        else:
            st.mem[root] = store_path(st.mem.get(root, UNDEF), path, val)

    # ------------------------------------------------------------ operands / rvalues
    def const_value(self, fr, c):
        k = c[0]
        if k == 'int':
            return S.bv(c[1], M.INT_WIDTH[c[2]])
        if k == 'bool':
            return S.boolc(c[1])
        if k == 'unit':
            return UNIT
        if k == 'str':
            return ('str', c[1])
        if k == 'zst':
            return ('closure', c[1])
        if k == 'fnitem':
            return ('fnitem', c[1])
        if k == 'named':
            m = re.search(r'<impl ([ui](?:8|16|32|64|128|size))>::(MAX|MIN|BITS)$', c[1])
            if m:
                w = M.INT_WIDTH[m.group(1)]
                signed = m.group(1)[0] == 'i'
                if m.group(2) == 'BITS':
                    return S.bv(w, 32)
                if m.group(2) == 'MAX':
                    return S.bv((1 << (w - 1)) - 1 if signed else (1 << w) - 1, w)
                return S.bv((1 << (w - 1)) if signed else 0, w)
            name = c[1].split('::')[-1]
            if name in self.crate.consts:
                ty, cc = self.crate.consts[name]
                return self.const_value(fr, cc)
            return ('named', c[1])
        if k == 'opaque':
            return ('opaqueconst', c[1])
        raise Unsupported('constant %r' % (c,))

    def operand(self, fr, op, st):
        if op[0] in ('copy', 'move'):
            v = self.read_place(fr, op[1], st)
            return v
        return self.const_value(fr, op[1])

    def rvalue(self, fr, rv, st, pc):
        k = rv[0]
        if k == 'use':
            return self.operand(fr, rv[1], st)
        if k == 'ref':
            root, path = self.resolve_place(fr, rv[1], st)
            return RefV(root, path)
        if k == 'discr':
            v = self.read_place(fr, rv[1], st)
            if isinstance(v, S.Term) and v.sort == 8:
                return S.ZExt(v, 64)   # std::cmp::Ordering produced by the three-way comparison operator
            if not isinstance(v, EnumV):
                raise Unsupported('discriminant of %r in %s' % (v, fr.fn.name))
            return v.tag
        if k == 'binop':
            return self.binop(fr, rv[1], rv[2], rv[3], st)
        if k == 'unop':
            v = self.operand(fr, rv[2], st)
            if rv[1] == 'Not':
                return S.Not(v) if v.sort == S.B else S.BvNot(v)
            if rv[1] == 'Neg':
                return S.Neg(v)
            raise Unsupported('unop ' + rv[1])
        if k == 'cast':
            v = self.operand(fr, rv[1], st)
            kind = rv[3]
            if kind.startswith('IntToInt'):
                src = self.operand_type(fr, rv[1])
                si = M.int_info(src) if src else None
                di = M.int_info(rv[2])
                if di is None:
                    raise Unsupported('cast to ' + rv[2])
                if isinstance(v, EnumV):
                    v = v.tag
                    signed = False
                elif v.sort == S.B:
                    signed = False
                else:
                    if si is None:
                        raise Unsupported('cast from unknown int type %r in %s' % (src, fr.fn.name))
                    signed = si[1]
                return S.Resize(v, di[0], signed)
            if kind.startswith('PointerCoercion') or kind in ('PtrToPtr', 'Transmute'):
                if kind == 'Transmute':
                    raise Unsupported('transmute')
                return v
            raise Unsupported('cast kind ' + kind)
        if k == 'tuple':
            return tuple(self.operand(fr, o, st) for o in rv[1])
        if k == 'array':
            return tuple(self.operand(fr, o, st) for o in rv[1])
        if k == 'adt':
            return self.aggregate(fr, rv[1], rv[2], rv[3], st)
        if k == 'len':
            v = self.read_place(fr, rv[1], st)
            if isinstance(v, VecV):
                return v.length
            if isinstance(v, tuple):
                return S.bv(len(v), 64)
            raise Unsupported('Len of %r' % (v,))
        if k == 'repeat':
            v = self.operand(fr, rv[1], st)
            n = rv[2].strip()
            m = re.match(r'^(?:const )?(\d+)(?:_usize)?$', n)
            if not m:
                c = self.crate.consts.get(n.split('::')[-1])
                if c is not None and c[1][0] == 'int':
                    cnt = c[1][1]
                else:
                    raise Unsupported('array repeat count %r' % n)
            else:
                cnt = int(m.group(1))
            if cnt > 64:
                raise Unsupported('array of %d elements' % cnt)
            return tuple([v] * cnt)
        raise Unsupported('rvalue kind ' + k)

    def aggregate(self, fr, path, fields, braces, st):
        vals = [self.operand(fr, o, st) for _, o in fields]
        plain = M.strip_generics(path)
        segs = [s for s in plain.split('::') if s]
        if plain.startswith('{closure@') or path.startswith('{closure@'):
            return ('closure', path.split('}')[0] + '}') + tuple(vals)
        last = segs[-1]
        if len(segs) >= 2:
            en = segs[-2]
            if en == 'Ordering':
                if 'atomic' in plain:
                    return ('atomic_ordering', last)
                return S.bv(CMP_ORDERING[last], 8)
            if en in BUILTIN_ENUMS and BUILTIN_ENUMS[en] and last in BUILTIN_ENUMS[en]:
                return enum_const(BUILTIN_ENUMS[en].index(last), vals)
            if en in self.layouts.enums:
                try:
                    idx = self.layouts.variant_index(en, last)
                except KeyError:
                    raise Unsupported('unknown variant %s' % path)
                # cross-check field names against the declaration
                decl = self.layouts.enums[en][idx][1]
                if braces and [n for n, _ in fields] != decl:
                    raise Unsupported('field order mismatch for %s: MIR %r vs source %r'
                                      % (path, [n for n, _ in fields], decl))
                return enum_const(idx, vals)
        if braces is None and not fields:
            # unit struct / unknown unit-like constant
            if last in self.layouts.structs or last[0].isupper():
                return UNIT
        if last in self.layouts.structs and braces:
            decl = self.layouts.structs[last]
            if [n for n, _ in fields] != decl:
                raise Unsupported('field order mismatch for struct %s: MIR %r vs source %r'
                                  % (path, [n for n, _ in fields], decl))
        return tuple(vals)

    def binop(self, fr, op, a, b, st):
        x = self.operand(fr, a, st)
        y = self.operand(fr, b, st)
        if isinstance(x, EnumV) or isinstance(y, EnumV):
            raise Unsupported('binop on enum')
        if not isinstance(x, S.Term) or not isinstance(y, S.Term):
            raise Unsupported('binop %s on %r, %r in %s' % (op, x, y, fr.fn.name))
        ty = self.operand_type(fr, a) or self.operand_type(fr, b)
        info = M.int_info(ty) if ty else None
        signed = bool(info and info[1])
        if x.sort == S.B:
            if op == 'Eq':
                return S.Eq(x, y)
            if op == 'Ne':
                return S.Not(S.Eq(x, y))
            if op == 'BitAnd':
                return S.And(x, y)
            if op == 'BitOr':
                return S.Or(x, y)
            if op == 'BitXor':
                return S.Xor(x, y)
            raise Unsupported('bool binop ' + op)
        if op in ('Shl', 'Shr', 'ShlUnchecked', 'ShrUnchecked') and y.sort != x.sort:
            y = S.Resize(y, x.sort)
        if op in ('Add', 'AddUnchecked'):
            return S.Add(x, y)
        if op in ('Sub', 'SubUnchecked'):
            return S.Sub(x, y)
        if op in ('Mul', 'MulUnchecked'):
            return S.Mul(x, y)
        if op == 'Eq':
            return S.Eq(x, y)
        if op == 'Ne':
            return S.Not(S.Eq(x, y))
        if op == 'Lt':
            return S.Slt(x, y) if signed else S.Ult(x, y)
        if op == 'Le':
            return S.Sle(x, y) if signed else S.Ule(x, y)
        if op == 'Gt':
            return S.Sgt(x, y) if signed else S.Ugt(x, y)
        if op == 'Ge':
            return S.Sge(x, y) if signed else S.Uge(x, y)
        if op == 'BitAnd':
            return S.BvAnd(x, y)
        if op == 'BitOr':
            return S.BvOr(x, y)
        if op == 'BitXor':
            return S.BvXor(x, y)
        if op in ('Shl', 'ShlUnchecked'):
            return S.Shl(x, y)
        if op in ('Shr', 'ShrUnchecked'):
            return S.AShr(x, y) if signed else S.LShr(x, y)
        if signed and op in ('AddWithOverflow', 'SubWithOverflow', 'MulWithOverflow', 'Div', 'Rem'):
            raise Unsupported('signed ' + op)
        if op == 'AddWithOverflow':
            return (S.Add(x, y), S.AddOvf(x, y))
        if op == 'SubWithOverflow':
            return (S.Sub(x, y), S.SubOvf(x, y))
        if op == 'MulWithOverflow':
            return (S.Mul(x, y), S.MulOvf(x, y))
        if op == 'Div':
            return S.UDiv(x, y)
        if op == 'Rem':
            return S.URem(x, y)
        if op == 'Cmp':
            lt = S.Slt(x, y) if signed else S.Ult(x, y)
            return S.Ite(lt, S.bv(-1, 8), S.Ite(S.Eq(x, y), S.bv(0, 8), S.bv(1, 8)))
        raise Unsupported('binop ' + op)

    # ------------------------------------------------------------ calls
    def loop_bound(self, fn, b=None):
        if self.block_bounds:
            v = self.block_bounds.get((fn.name, b))
            if v is not None:
                return v
        for k, v in self.loop_bounds.items():
            if fn.name.endswith(k):
                return v
        return self.default_loop_bound

    def resolve(self, callee):
        r = self._resolve_cache.get(callee)
        if r is None:
            r = (self.crate.resolve(callee),)
            self._resolve_cache[callee] = r
        return r[0]

    def call_fn(self, fn, argv, st, pc):
        """inline a crate function; returns (return value, state, live)"""
        fn.parse()
        self.fns_used[fn.name] = fn
        if len(argv) != len(fn.params):
            raise Unsupported('arity mismatch calling %s' % fn.name)
        self.depth += 1
        if self.depth > self.max_depth:
            raise Unsupported('call depth exceeded at %s' % fn.name)
        self.ncalls += 1
        self.next_fid += 1
        fr = Frame(fn, self.next_fid)
        for (local, _), v in zip(fn.params, argv):
            st.mem[('L', fr.fid, local)] = v
        st2, live = self.run(fr, 0, EXIT, st, pc, {})
        self.depth -= 1
        if st2 is None:
            return None, None, S.FALSE
        ret = st2.mem.get(('L', fr.fid, 0), UNIT)
        for l in fn.local_ty:
            st2.mem.pop(('L', fr.fid, l), None)
        return ret, st2, live

    def run_from(self, fn, block, locals_by_name, st, pc=S.TRUE, prologue=False):
        """start executing `fn` at `block` (e.g. a loop head) with the given values of its named
        variables (debug names; parameters included) and run to the function's return.
        Used for inductive steps over one loop iteration.  Returns (return value, state, live, frame)."""
        fn.parse()
        self.fns_used[fn.name] = fn
        self.ncalls += 1
        self.next_fid += 1
        fr = Frame(fn, self.next_fid)
        for name in locals_by_name:
            if name not in fn.debug_names:
                raise Unsupported('run_from: %s has no variable named %s' % (fn.name, name))
        if prologue:
            # locals that are only written BEFORE the loop (closures held in variables, references, constants) keep the
            # value the function's own prologue gives them; locals written inside the loop stay undefined unless named
            plocals = set(l for l, _ in fn.params)
            for name, v in locals_by_name.items():
                if fn.debug_names[name] in plocals:
                    st.mem[('L', fr.fid, fn.debug_names[name])] = v
            before = dict(st.mem)
            saved = (len(self.panics), len(self.unwinds), len(self.cuts))
            self.depth += 1
            stp, lp = self.run(fr, 0, block, st, pc, {})
            self.depth -= 1
            del self.panics[saved[0]:], self.unwinds[saved[1]:], self.cuts[saved[2]:]
            if stp is None:
                raise Unsupported('run_from: the prologue of %s never reaches bb%d' % (fn.name, block))
            for k_, v_ in before.items():
                if stp.mem.get(k_, UNDEF) is not v_ and not (isinstance(k_, tuple) and k_ and k_[0] == 'L' and k_[1] == fr.fid):
                    raise Unsupported('run_from: the prologue of %s writes to %r' % (fn.name, k_))
            st = stp
            body = fn.loops().get(block, set())
            written = set()
            for b_ in body:
                blk = fn.blocks[b_]
                for stt in blk[0]:
                    if stt[0] in ('assign', 'setdiscr'):
                        written.add(stt[1].local)
                        if stt[0] == 'assign' and stt[2][0] == 'ref' and stt[2][2]:
                            written.add(stt[2][1].local)
                if blk[1][0] == 'call':
                    written.add(blk[1][1].local)
            for l in written:
                st.mem.pop(('L', fr.fid, l), None)
        for name, v in locals_by_name.items():
            st.mem[('L', fr.fid, fn.debug_names[name])] = v
        self.depth += 1
        st2, live = self.run(fr, block, EXIT, st, pc, {})
        self.depth -= 1
        if st2 is None:
            return None, None, S.FALSE, fr
        ret = st2.mem.get(('L', fr.fid, 0), UNIT)
        for l in fn.local_ty:
            st2.mem.pop(('L', fr.fid, l), None)
        return ret, st2, live, fr

    def call(self, name, argv, st, pc=S.TRUE):
        """entry point for harnesses: call a crate function by callee text"""
        fn = self.resolve(name)
        if fn is None:
            raise Unsupported('no such crate function: ' + name)
        return self.call_fn(fn, list(argv), st, pc)

    def call_closure(self, cl, argv, st, pc):
        """cl: ('closure', type, captures...) ; argv: the call arguments (not including self)"""
        if isinstance(cl, RefV):
            cl = self.models.rd(st, cl)
        if isinstance(cl, tuple) and cl and cl[0] == 'fnitem':
            # a function item used as a value (e.g. `.map_err(Self::helper)`, `.and_then(PriceLevel::from_snapshot)`)
            target = self.resolve(cl[1])
            if target is not None:
                return self.call_fn(target, list(argv), st, pc)
            return self.models.call(self, _NoFrame(cl[1]), cl[1], list(argv), st, pc, None)
        if not (isinstance(cl, tuple) and cl and cl[0] == 'closure'):
            raise Unsupported('not a closure: %r' % (cl,))
        fn = self.crate.closure(cl[1])
        if fn is None:
            raise Unsupported('closure body not found: ' + cl[1])
        fn.parse()
        selfty = fn.params[0][1].strip()
        env = tuple(cl[2:])
        if selfty.startswith('&'):
            root = self.alloc(st, env, 'clenv')
            selfv = RefV(root, ())
        else:
            selfv = env
        return self.call_fn(fn, [selfv] + list(argv), st, pc)

    # ------------------------------------------------------------ main loop
    def run(self, fr, b, stop, st, pc, visits):
        live = S.TRUE
        fn = fr.fn
        while True:
            if b == stop:
                return st, live
            if b == EXIT:
                raise Unsupported('internal: fell through EXIT in %s' % fn.name)
            cnt = visits.get(b, 0) + 1
            if cnt > 1 and cnt > self.loop_bound(fn, b):
                g = S.And(pc, live)
                if g is not S.FALSE:
                    self.unwinds.append((g, fn.name, b))
                    if self.capture_cuts and (fn.name, b) in self.block_bounds:
                        # loop cut: keep the state at the loop head for inductive reasoning
                        self.cuts.append((g, st.copy(), fr, b))
                return None, S.FALSE
            visits = dict(visits)
            visits[b] = cnt
            blk = fn.blocks[b]
            self.nblocks += 1
            for stt in blk[0]:
                self.nstmts += 1
                k = stt[0]
                if k == 'assign':
                    self.write_place(fr, stt[1], self.rvalue(fr, stt[2], st, pc), st)
                elif k == 'setdiscr':
                    v = self.read_place(fr, stt[1], st)
                    if isinstance(v, EnumV):
                        self.write_place(fr, stt[1], EnumV(S.bv(stt[2], 64), v.payloads), st)
                    else:
                        self.write_place(fr, stt[1], EnumV(S.bv(stt[2], 64), {}), st)
                elif k == 'assume':
                    pass
                else:
                    raise Unsupported('statement ' + k)
            term = blk[1]
            k = term[0]
            if k == 'goto':
                b = term[1]
            elif k == 'return':
                b = EXIT
            elif k == 'drop':
                b = term[2]
            elif k == 'assert':
                v = self.operand(fr, term[1], st)
                ok = S.Not(v) if term[2] else v
                g = S.And(pc, live, S.Not(ok))
                if g is not S.FALSE:
                    self.panics.append((g, term[3], fn.name, b))
                live = S.And(live, ok)
                if live is S.FALSE:
                    return None, S.FALSE
                b = term[4]
            elif k == 'unreachable':
                g = S.And(pc, live)
                if g is not S.FALSE:
                    self.unreach.append((g, fn.name, b))
                return None, S.FALSE
            elif k == 'dead':
                return None, S.FALSE
            elif k == 'call':
                dest, callee, args, ret = term[1], term[2], term[3], term[4]
                argv = [self.operand(fr, a, st) for a in args]
                cpc = S.And(pc, live)
                target = self.resolve(callee)
                if target is not None:
                    rv, st2, l2 = self.call_fn(target, argv, st, cpc)
                else:
                    if self.models is None:
                        raise Unsupported('no model for ' + callee)
                    self.nmodel_calls += 1
                    rv, st2, l2 = self.models.call(self, fr, callee, argv, st, cpc, args)
                if l2 is S.FALSE or st2 is None:
                    return None, S.FALSE
                st = st2
                live = S.And(live, l2)
                if ret is None:
                    return None, S.FALSE
                self.write_place(fr, dest, rv, st)
                b = ret
            elif k == 'switch':
                v = self.operand(fr, term[1], st)
                if isinstance(v, EnumV):
                    v = v.tag
                conds = []
                others = []
                for val, bb in term[2]:
                    if v.sort == S.B:
                        c = v if val else S.Not(v)
                    else:
                        c = S.Eq(v, S.bv(val, v.sort))
                    conds.append((c, bb))
                    others.append(S.Not(c))
                if term[3] is not None:
                    leaves = S.leaf_consts(v) if v.sort != S.B else None
                    if leaves is not None and leaves <= set(val & ((1 << v.sort) - 1) for val, _ in term[2]):
                        pass  # every value the discriminant can take has an explicit target
                    else:
                        conds.append((S.And(others), term[3]))
                feas = [(c, bb) for c, bb in conds if c is not S.FALSE]
                # merge targets that are the same block
                if len(feas) == 1 or all(bb == feas[0][1] for _, bb in feas):
                    b = feas[0][1]
                    continue
                p = fn.ipdom.get(b)
                if p is None:
                    raise Unsupported('no post-dominator for bb%d of %s' % (b, fn.name))
                results = []
                dead = []
                base = S.And(pc, live)
                for c, bb in feas:
                    if bb not in fn.reach_exit and bb != p:
                        # branch can never return (panic / unreachable): run it for its events only
                        self.run(fr, bb, p, st.copy(), S.And(base, c), visits)
                        dead.append(c)
                        continue
                    if bb == p:
                        results.append((c, st.copy()))
                        continue
                    s_i, l_i = self.run(fr, bb, p, st.copy(), S.And(base, c), visits)
                    if s_i is not None and l_i is not S.FALSE:
                        results.append((S.And(c, l_i), s_i))
                        if l_i is not S.TRUE:
                            dead.append(S.And(c, S.Not(l_i)))
                    else:
                        dead.append(c)
                if not results:
                    return None, S.FALSE
                self.nmerges += 1
                st = merge_states(results)
                # the feasible conditions are an exhaustive case split: only dead parts restrict liveness
                if dead:
                    live = S.And(live, S.Not(S.Or(dead)))
                b = p
            else:
                raise Unsupported('terminator ' + k)


def run_with_big_stack(f, *a, **kw):
    """run f in a thread with a large stack (deep recursion in unrolled loops)"""
    res = {}

    def tgt():
        try:
            res['v'] = f(*a, **kw)
        except BaseException as e:  # propagate
            res['e'] = e
            res['tb'] = sys.exc_info()[2]

    threading.stack_size(512 * 1024 * 1024)
    sys.setrecursionlimit(200000)
    t = threading.Thread(target=tgt)
    t.start()
    t.join()
    if 'e' in res:
        raise res['e'].with_traceback(res['tb'])
    return res.get('v')
