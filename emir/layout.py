"""Struct / enum declarations read from the crate sources (field and variant order).

MIR refers to fields and variants by index; the declaration order in the source gives the
names.  The tables are rebuilt from /repo on every run and cross-checked against the MIR
(aggregate expressions print field names in index order; switchInt/downcast pairs reveal
variant indices) by exec.Executor.validate_layouts.
"""
import os, re


def _strip(src):
    """remove comments and string/char literal contents"""
    out = []
    i = 0
    n = len(src)
    while i < n:
        c = src[i]
        if src.startswith('//', i):
            j = src.find('\n', i)
            i = n if j < 0 else j
            continue
        if src.startswith('/*', i):
            j = src.find('*/', i + 2)
            i = n if j < 0 else j + 2
            continue
        if c == '"':
            j = i + 1
            while j < n and src[j] != '"':
                if src[j] == '\\':
                    j += 1
                j += 1
            out.append('""')
            i = j + 1
            continue
        out.append(c)
        i += 1
    return ''.join(out)


def _match(s, i, o, c):
    d = 0
    for j in range(i, len(s)):
        if s[j] == o:
            d += 1
        elif s[j] == c:
            d -= 1
            if d == 0:
                return j
    raise ValueError('unbalanced')


def _split_top(s):
    parts = []
    d = 0
    cur = []
    for i, ch in enumerate(s):
        if ch in '([{<':
            d += 1
        elif ch in ')]}':
            d -= 1
        elif ch == '>' and not (i > 0 and s[i - 1] == '-'):
            d -= 1
        if ch == ',' and d == 0:
            parts.append(''.join(cur).strip())
            cur = []
        else:
            cur.append(ch)
    last = ''.join(cur).strip()
    if last:
        parts.append(last)
    return parts


def _clean_item(it):
    it = it.strip()
    while it.startswith('#'):
        j = _match(it, it.index('['), '[', ']')
        it = it[j + 1:].strip()
    it = re.sub(r'^pub(\([^)]*\))?\s+', '', it)
    return it


class Layouts(object):
    def __init__(self):
        self.structs = {}  # name -> [field names]  (tuple structs: ['0','1',..])
        self.struct_types = {}  # name -> [field types]
        self.enums = {}  # name -> [(variant name, [field names], [field types])]

    def variant_index(self, enum, variant):
        for i, (n, _, _) in enumerate(self.enums[enum]):
            if n == variant:
                return i
        raise KeyError((enum, variant))

    def field_index(self, struct, field):
        return self.structs[struct].index(field)

    def variant_field_index(self, enum, variant, field):
        return self.enums[enum][self.variant_index(enum, variant)][1].index(field)


def load(src_root):
    L = Layouts()
    for root, dirs, files in os.walk(os.path.join(src_root, 'src')):
        dirs[:] = sorted(d for d in dirs if d != 'tests')
        for fn in sorted(files):
            if not fn.endswith('.rs'):
                continue
            src = _strip(open(os.path.join(root, fn)).read())
            for m in re.finditer(r'\b(struct|enum)\s+([A-Za-z_][A-Za-z0-9_]*)\s*(<[^{;(]*>)?\s*(where[^{;]*)?([{(;])', src):
                kind, name, _, _, opener = m.groups()
                if kind == 'struct':
                    if opener == ';':
                        L.structs[name] = []
                        L.struct_types[name] = []
                        continue
                    o, c = ('{', '}') if opener == '{' else ('(', ')')
                    j = _match(src, m.end() - 1, o, c)
                    body = src[m.end():j]
                    names, types = [], []
                    for k, it in enumerate(_split_top(body)):
                        it = _clean_item(it)
                        if not it:
                            continue
                        if opener == '{':
                            fname, ftype = it.split(':', 1)
                            names.append(fname.strip())
                            types.append(ftype.strip())
                        else:
                            names.append(str(k))
                            types.append(it)
                    L.structs[name] = names
                    L.struct_types[name] = types
                else:
                    if opener != '{':
                        continue
                    j = _match(src, m.end() - 1, '{', '}')
                    body = src[m.end():j]
                    variants = []
                    for it in _split_top(body):
                        it = _clean_item(it)
                        if not it:
                            continue
                        vm = re.match(r'^([A-Za-z_][A-Za-z0-9_]*)\s*(.*)$', it, re.S)
                        vname, rest = vm.group(1), vm.group(2).strip()
                        if rest.startswith('='):
                            raise ValueError('explicit discriminant on %s::%s not supported' % (name, vname))
                        fnames, ftypes = [], []
                        if rest.startswith('{'):
                            e = _match(rest, 0, '{', '}')
                            for f in _split_top(rest[1:e]):
                                f = _clean_item(f)
                                if f:
                                    a, b = f.split(':', 1)
                                    fnames.append(a.strip())
                                    ftypes.append(b.strip())
                        elif rest.startswith('('):
                            e = _match(rest, 0, '(', ')')
                            for k, f in enumerate(_split_top(rest[1:e])):
                                fnames.append(str(k))
                                ftypes.append(_clean_item(f))
                        variants.append((vname, fnames, ftypes))
                    L.enums[name] = variants
    return L


if __name__ == '__main__':
    import sys, json
    L = load(sys.argv[1] if len(sys.argv) > 1 else '/repo')
    print(json.dumps({'structs': L.structs, 'enums': {k: [(a, b) for a, b, c in v] for k, v in L.enums.items()}},
                     indent=1))
