"""command line: ./check <ID> [--tier quick|thorough] [--replay FILE]"""
import sys, os, argparse, importlib, traceback


def main():
    ap = argparse.ArgumentParser()
    ap.add_argument('pid')
    ap.add_argument('--tier', default=os.environ.get('VERIF_TIER', 'quick'))
    ap.add_argument('--replay', default=None)
    args = ap.parse_args()
    tier = args.tier if args.tier in ('quick', 'thorough') else 'quick'
    seed = int(os.environ.get('VERIF_SEED', '0') or 0)
    pid = args.pid.upper()
    try:
        mod = importlib.import_module('emir.checks.%s' % pid.lower())
    except ImportError as e:
        print('no check for %s: %s' % (pid, e))
        sys.exit(2)
    from .exec import run_with_big_stack
    try:
        if args.replay:
            from .framework import replay_file
            code = replay_file(pid, args.replay)
        else:
            code = run_with_big_stack(mod.run, tier, seed)
    except SystemExit:
        raise
    except BaseException as e:  # fail closed
        traceback.print_exc()
        print('INCONCLUSIVE property=%s internal error: %s: %s' % (pid, type(e).__name__, e))
        code = 2
    sys.stdout.flush()
    os._exit(code)


if __name__ == '__main__':
    main()
