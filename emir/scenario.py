"""Building blocks shared by the checks: symbolic values of the crate's types, views on
orders, engine set-up."""
import re, os
from . import sym as S
from . import mir as M
from . import layout
from .values import UNDEF, UNIT, EnumV, RefV, VecV, merge, enum_const, Unsupported
from .exec import Executor, State
from .models import Models

ORDER_VARIANTS = ['Standard', 'IcebergOrder', 'PostOnly', 'TrailingStop', 'PeggedOrder', 'MarketToLimit',
                  'ReserveOrder']


class Inputs(object):
    """registry of the symbolic input variables of a scenario (for model extraction)"""

    def __init__(self, fixed=None, qty_mode=None):
        self.vars = []
        self.names = set()
        self.fixed = fixed
        # 'full'  : quantities are free 64-bit variables
        # 'grid:k': quantities range over {0..2^k-1} + {2^63-2^(k-1)..2^63+2^(k-1)-1} + {2^64-2^k..2^64-1}
        self.qty_mode = qty_mode or os.environ.get('EMIR_QTY', 'grid:4')

    def qty(self, name):
        """a 64-bit quantity-like input (order quantities, thresholds, match sizes, amend quantities)"""
        if self.qty_mode == 'full':
            return self.var(name, 64)
        k = int(self.qty_mode.split(':')[1])
        s = S.ZExt(self.var(name + '.lo', k), 64)
        top = self.var(name + '.top', S.B)
        mid = self.var(name + '.mid', S.B)
        return S.Ite(top, S.Sub(S.bv(-1, 64), s),
                     S.Ite(mid, S.Add(S.bv((1 << 63) - (1 << (k - 1)), 64), s), s))

    def var(self, name, sort):
        assert name not in self.names, name
        self.names.add(name)
        v = S.var(name, sort)
        self.vars.append(v)
        if self.fixed is not None:
            x = self.fixed.get(name, 0)
            return S.boolc(x) if sort == S.B else S.bv(x, sort)
        return v


def tag_tree(inp, prefix, n):
    """one-hot enum tag as a const-leaf ite tree over fresh boolean selectors"""
    t = S.bv(n - 1, 64)
    for i in reversed(range(n - 1)):
        t = S.Ite(inp.var('%s.is%d' % (prefix, i), S.B), S.bv(i, 64), t)
    return t


QTY_FIELDS = ('replenish_threshold', 'replenish_amount.some')


def sym_value(L, inp, ty, prefix, fixed=None):
    """fresh symbolic value of Rust type `ty` (as written in the crate sources)"""
    ty = ty.strip()
    fixed = fixed or {}
    info = M.int_info(ty)
    if info:
        if info[0] == 64 and prefix.endswith(QTY_FIELDS):
            return inp.qty(prefix)
        return inp.var(prefix, info[0])
    if ty == 'bool':
        return inp.var(prefix, S.B)
    if ty == 'T' or ty == '()':
        return UNIT
    if ty == 'Uuid' or ty == 'Ulid':
        return inp.var(prefix, 128)
    m = re.match(r'^Option<(.*)>$', ty)
    if m:
        tag = tag_tree(inp, prefix, 2)
        return EnumV(tag, {0: (), 1: (sym_value(L, inp, m.group(1), prefix + '.some'),)})
    head = M._type_head(ty)
    if head in L.enums:
        vs = L.enums[head]
        tag = tag_tree(inp, prefix, len(vs))
        payloads = {}
        for i, (vn, fns, fts) in enumerate(vs):
            payloads[i] = tuple(sym_value(L, inp, ft, '%s.%s.%s' % (prefix, vn, fn)) for fn, ft in zip(fns, fts))
        return EnumV(tag, payloads)
    if head in L.structs:
        return tuple(sym_value(L, inp, ft, '%s.%s' % (prefix, fn))
                     for fn, ft in zip(L.structs[head], L.struct_types[head]))
    raise Unsupported('sym_value: type ' + ty)


def const_order_id(n, ulid=False):
    """concrete OrderId number n (Uuid variant unless ulid)"""
    return EnumV(S.bv(1 if ulid else 0, 64), {(1 if ulid else 0): (S.bv(n, 128),)})


def sym_order(L, inp, prefix, variants=None, oid=None, price=None):
    """symbolic OrderType<()>; `variants`: list of allowed variant indices (default all 7);
    `oid`: fixed OrderId value; `price`: fixed price term"""
    vs = L.enums['OrderType']
    allowed = list(range(len(vs))) if variants is None else list(variants)
    if len(allowed) == 1:
        tag = S.bv(allowed[0], 64)
    else:
        tag = S.bv(allowed[-1], 64)
        for k, i in reversed(list(enumerate(allowed[:-1]))):
            tag = S.Ite(inp.var('%s.is%s' % (prefix, vs[i][0]), S.B), S.bv(i, 64), tag)
    # common fields are shared between variants so that merged orders stay small
    common = {}
    payloads = {}
    for i in allowed:
        vn, fns, fts = vs[i]
        fields = []
        for fn, ft in zip(fns, fts):
            if fn == 'id' and oid is not None:
                fields.append(oid)
                continue
            if fn == 'price' and price is not None:
                fields.append(price)
                continue
            if fn in ('id', 'price', 'side', 'timestamp', 'time_in_force'):
                if fn not in common:
                    common[fn] = sym_value(L, inp, ft, '%s.%s' % (prefix, fn))
                fields.append(common[fn])
            elif fn in ('quantity', 'visible_quantity'):
                if 'disp' not in common:
                    common['disp'] = inp.qty('%s.displayed' % prefix)
                fields.append(common['disp'])
            elif fn == 'hidden_quantity':
                if 'hid' not in common:
                    common['hid'] = inp.qty('%s.hidden' % prefix)
                fields.append(common['hid'])
            else:
                fields.append(sym_value(L, inp, ft, '%s.%s.%s' % (prefix, vn, fn)))
        payloads[i] = tuple(fields)
    return EnumV(tag, payloads)


class OrderView(object):
    """named access to the fields of a (possibly symbolic-variant) OrderType value"""

    def __init__(self, L, o):
        self.L = L
        self.o = o
        self.vs = L.enums['OrderType']

    def is_variant(self, name):
        return S.Eq(self.o.tag, S.bv(self.L.variant_index('OrderType', name), 64))

    def field(self, names, default=None):
        """value of the first field in `names` that the variant has; ite over the variants present"""
        if isinstance(names, str):
            names = [names]
        acc = UNDEF
        for i, p in sorted(self.o.payloads.items(), reverse=True):
            if p is UNDEF or p is None:
                continue
            fns = self.vs[i][1]
            v = None
            for n in names:
                if n in fns:
                    v = p[fns.index(n)]
                    break
            if v is None:
                v = default
            if v is None:
                continue
            acc = merge(S.Eq(self.o.tag, S.bv(i, 64)), v, acc)
        return acc

    @property
    def displayed(self):
        return self.field(['quantity', 'visible_quantity'])

    @property
    def hidden(self):
        return self.field('hidden_quantity', S.bv(0, 64))

    @property
    def id(self):
        return self.field('id')

    @property
    def price(self):
        return self.field('price')

    @property
    def side(self):
        return self.field('side')

    @property
    def timestamp(self):
        return self.field('timestamp')

    @property
    def tif(self):
        return self.field('time_in_force')


def make_engine(repo='/repo', force_dump=False):
    crate = M.load(repo, force=force_dump)
    L = layout.load(repo)
    models = Models()
    ex = Executor(crate, L, models)
    return ex, L, models


def fn_summary(ex):
    """functions of the crate whose MIR was executed, for evidence files"""
    out = []
    for name, f in sorted(ex.fns_used.items()):
        out.append({'fn': name, 'mir_line': f.lineno, 'blocks': len(f.blocks), 'statements': f.nstmts})
    return out
